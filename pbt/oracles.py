"""Reference implementations written from the property statements / the literature, sharing no code with artap."""
import math
from fractions import Fraction


# ---------------------------------------------------------------- dominance (C01, C02, C03, C04, C09, C18)

def marker_rank(a, b):
    """-1 if marker a is better, +1 if b is better, 0 if equal.  Markers: 0/False is best (feasible), otherwise the
    smaller magnitude is better (ParetoDominance docstring: 'the solution with a smaller constraint violation')."""
    if a == b:
        return 0
    if a == 0:
        return -1
    if b == 0:
        return 1
    if abs(a) < abs(b):
        return -1
    if abs(b) < abs(a):
        return 1
    return 0


def dominates_obj(p, q):
    """textbook: p no worse everywhere and strictly better somewhere (minimisation of signed costs)"""
    return all(a <= b for a, b in zip(p, q)) and any(a < b for a, b in zip(p, q))


def verdict(p, q):
    """p, q: signed-cost vectors with the marker last.  0 neither, 1 p dominates, 2 q dominates."""
    r = marker_rank(p[-1], q[-1])
    if r < 0:
        return 1
    if r > 0:
        return 2
    if dominates_obj(p[:-1], q[:-1]):
        return 1
    if dominates_obj(q[:-1], p[:-1]):
        return 2
    return 0


def swap(v):
    return {0: 0, 1: 2, 2: 1}[v]


def pareto_ranks(costs):
    """rank = 1 if undominated else 1 + max rank of its dominators (memoised depth-first walk over the dominance DAG,
    with an explicit stack so that chains of many hundred members do not hit the recursion limit)."""
    n = len(costs)
    doms = [[j for j in range(n) if j != i and verdict(costs[j], costs[i]) == 1] for i in range(n)]
    memo = {}
    for s in range(n):
        stack = [s]
        while stack:
            if len(stack) > n * n + n + 1:
                raise ValueError("dominance cycle")
            i = stack[-1]
            if i in memo:
                stack.pop()
                continue
            pending = [j for j in doms[i] if j not in memo]
            if pending:
                stack.extend(pending)
            else:
                memo[i] = 1 + max((memo[j] for j in doms[i]), default=0)
                stack.pop()
    return [memo[i] for i in range(n)]


def nondominated_set(vectors):
    """set of tuples -> the subset no other member dominates"""
    vs = set(tuple(v) for v in vectors)
    return {v for v in vs if not any(verdict(w, v) == 1 for w in vs if w != v)}


def crowding_reference(front):
    """front: list of objective tuples (no marker).  Only meaningful on tie-free fronts."""
    n = len(front)
    if n == 0:
        return []
    if n <= 2:
        return [math.inf] * n
    m = len(front[0])
    d = [0.0] * n
    for k in range(m):
        order = sorted(range(n), key=lambda i: front[i][k])
        lo, hi = front[order[0]][k], front[order[-1]][k]
        d[order[0]] = math.inf
        d[order[-1]] = math.inf
        rng = hi - lo
        for pos in range(1, n - 1):
            i = order[pos]
            if rng > 0:
                d[i] += (front[order[pos + 1]][k] - front[order[pos - 1]][k]) / rng
    return d


# ---------------------------------------------------------------- rounding (C05)

def round_relation_ok(signed, cost, sign, decimals=7):
    """signed must be sign*round(cost, decimals) for *some* correct rounding of the decimal value: within half a unit
    of the last kept digit (plus float error) of sign*cost, and a multiple of 10^-decimals up to float error."""
    if math.isinf(cost) or math.isnan(cost):
        return (signed == sign * cost) or (math.isnan(cost) and math.isnan(signed))
    unit = 10.0 ** (-decimals)
    tol = 0.5 * unit + 8 * math.ulp(max(abs(cost), unit))
    if abs(signed - sign * cost) > tol:
        return False
    scaled = signed / unit
    if abs(scaled) < 2 ** 52:
        if abs(scaled - round(scaled)) > 1e-6 * max(1.0, abs(scaled)) * 2 ** -20 + 1e-4:
            return False
    return True


# ---------------------------------------------------------------- sampling (C12)

def primes(k):
    out = []
    c = 2
    while len(out) < k:
        if all(c % p for p in out if p * p <= c):
            out.append(c)
        c += 1
    return out


def radical_inverse(i, base):
    f = Fraction(1, base)
    r = Fraction(0)
    while i > 0:
        i, d = divmod(i, base)
        r += d * f
        f /= base
    return r


def radical_inverse_ratio(i, base):
    """the same number as an exact integer ratio (numerator, denominator): digits of i mirrored at the radix point"""
    num, den = 0, 1
    while i > 0:
        i, d = divmod(i, base)
        num = num * base + d
        den *= base
    return num, den


# ---------------------------------------------------------------- indicators (C17)

def gd_reference(reference, computed):
    tot = 0.0
    for c in computed:
        best = None
        for r in reference:
            d = math.sqrt(sum((a - b) * (a - b) for a, b in zip(r, c)))
            if best is None or d < best:
                best = d
        tot += best
    return tot / len(computed)


def eps_add_reference(reference, computed):
    eps = None
    for r in reference:
        ej = None
        for c in computed:
            ek = max(a - b for a, b in zip(c, r))
            ej = ek if ej is None or ek < ej else ej
        eps = ej if eps is None or ej > eps else eps
    return max(eps, 0.0)
