#!/venv/bin/python
"""Second engine: coverage-guided fuzzing of a property clause with atheris (libFuzzer) through Hypothesis'
`fuzz_one_input` bridge.  libFuzzer mutates the byte string, Hypothesis decodes it into the structured case of the
clause's strategy, the *same* check function / oracle runs inside the target, and coverage feedback comes from the
instrumented artap modules.

usage: fuzz.py <Cxx> <clause> --out FILE [--runs N] [--seed S] [--max-time SEC] [--corpus DIR]
FILE receives JSON lines: {"e":"stat",...} every 2000 executions and {"e":"violation",...} for the first case of every
bucket (the search continues past known buckets; atheris never returns from Fuzz(), so results are streamed).
"""
import os
import sys
import json
import time
import argparse

HERE = os.path.dirname(os.path.abspath(__file__))
VERIF = os.path.dirname(HERE)
sys.path.insert(0, VERIF)
sys.path.insert(1, os.path.join(VERIF, ".deps"))


def main():
    ap = argparse.ArgumentParser()
    ap.add_argument("prop")
    ap.add_argument("clause")
    ap.add_argument("--out", required=True)
    ap.add_argument("--runs", type=int, default=20000)
    ap.add_argument("--seed", type=int, default=1)
    ap.add_argument("--max-time", type=int, default=300)
    ap.add_argument("--corpus")
    a = ap.parse_args()
    try:
        import atheris
    except ImportError:
        with open(a.out, "a") as f:
            f.write(json.dumps({"e": "unavailable", "why": "atheris not importable"}) + "\n")
        return 3
    from pbt import core
    core.silence_fds()
    core.private_tmpdir()
    root = os.environ.get("ARTAP_ROOT", "/repo")
    sys.path.insert(0, root)
    import logging
    logging.disable(logging.CRITICAL)
    with atheris.instrument_imports(include=["artap"]):
        import artap.individual      # noqa: F401
        import artap.operators       # noqa: F401
        import artap.archive         # noqa: F401
        import artap.datastore       # noqa: F401
        import artap.job             # noqa: F401
    core.setup_artap_path()
    import importlib
    mod = importlib.import_module("pbt.props.%s" % a.prop.lower())
    clause = [c for c in mod.CLAUSES if c.name == a.clause][0]
    from hypothesis import given, settings, HealthCheck
    known = core.load_known()
    st = {"n": 0, "nt": set(), "buckets": {}, "t0": time.time(), "last": 0}
    out = open(a.out, "a")

    def emit(rec):
        out.write(json.dumps(rec, default=core._json_default) + "\n")
        out.flush()

    @settings(database=None, deadline=None, suppress_health_check=list(HealthCheck))
    @given(clause.strategy)
    def target(case):
        st["n"] += 1
        try:
            info = clause.check(case)
        except core.Violation as v:
            if core.known_match(known, a.prop.upper(), v) is None and v.bucket not in st["buckets"]:
                st["buckets"][v.bucket] = 1
                emit({"e": "violation", "clause": clause.name, "vclause": v.clause, "bucket": v.bucket,
                      "message": v.message, "case": json.loads(core.canon(case))})
            return
        if info and info.get("nt"):
            st["nt"].add(core.case_hash(case))
        if st["n"] - st["last"] >= 2000:
            st["last"] = st["n"]
            emit({"e": "stat", "execs": st["n"], "nt": len(st["nt"]), "wall_s": round(time.time() - st["t0"], 1)})

    decoder = getattr(mod, "FUZZ_DECODERS", {}).get(clause.name)
    if decoder is None:
        fuzz_one = target.hypothesis.fuzz_one_input      # generic bridge: Hypothesis decodes the bytes
    else:
        body = target.hypothesis.inner_test               # the undecorated body (stats + oracle)

        def fuzz_one(data):
            case = decoder(atheris.FuzzedDataProvider(data))   # property-specific byte -> case decoder
            if case is not None:
                body(case)
    total = [0]

    def test_one_input(data):
        total[0] += 1
        try:
            fuzz_one(data)
        except core.HarnessError as e:
            emit({"e": "harness-error", "msg": str(e)[:500]})
            os._exit(2)
        if total[0] >= a.runs:
            emit({"e": "stat", "execs": st["n"], "nt": len(st["nt"]), "wall_s": round(time.time() - st["t0"], 1),
                  "final": True, "libfuzzer_inputs": total[0]})
            os._exit(0)

    corpus = a.corpus or os.path.join(os.environ.get("TMPDIR", "/tmp"), "corpus")
    os.makedirs(corpus, exist_ok=True)
    argv = [sys.argv[0], "-seed=%d" % (a.seed if a.seed else 1), "-max_len=8192", "-max_total_time=%d" % a.max_time,
            "-print_final_stats=0", "-verbosity=0", "-len_control=0", corpus]
    atheris.Setup(argv, test_one_input)
    atheris.Fuzz()
    emit({"e": "stat", "execs": st["n"], "nt": len(st["nt"]), "wall_s": round(time.time() - st["t0"], 1), "final": True,
          "libfuzzer_inputs": total[0], "ended": "time"})
    return 0


if __name__ == "__main__":
    sys.exit(main())
