"""C11 writer process: builds a problem with an SQLite store (default thread-safe mode), runs a scenario and dies at the
requested crash point.  Everything that observes or kills lives here, in the harness; artap is imported unmodified.

usage: writer.py '<json spec>'
spec: {"root": artap root, "db": path, "log": side-log path, "scenario": "serial"|"parallel"|"nsga2"|"epsmoea"|"omopso",
       "payload": "small"|"big"|"huge", "inject": null | {"kind":"A","k":int} | {"kind":"B","j":int,"phase":"before"|"after"}
                 | {"kind":"E","j":int} | {"kind":"F","j":int,"phase":"before"|"after"},
       "slow_ms": float, "model_s": float, "fail_call": int (that objective call raises RuntimeError: a transient
       failure, the design is re-sampled and retried)}
The harness owns the clock: time.time / perf_counter / monotonic are shifted by an offset that every objective call
advances by model_s seconds (a model that takes that long to compute, without the test taking that long).
Side log (os.write, O_APPEND, survives any kind of death): JSON lines TRY/ACK per synchronisation attempt with the
snapshot that was attempted, ARMED when the store constructor has returned, DONE at a clean end, COUNTS in dry runs.
"""
import os
import sys
import json
import time
import hashlib

spec = json.loads(sys.argv[1])
LOG = os.open(spec["log"], os.O_WRONLY | os.O_CREAT | os.O_APPEND, 0o644)
STATE = {"armed": False, "sql": 0, "obj": 0, "fs": 0}
INJ = spec.get("inject")
CLOCK = [0.0]
for _n in ("time", "perf_counter", "monotonic"):
    def _shifted(_real=getattr(time, _n)):
        return _real() + CLOCK[0]
    setattr(time, _n, _shifted)


def log(rec):
    os.write(LOG, (json.dumps(rec, sort_keys=True) + "\n").encode())


def die():
    os._exit(77)


# ---- injector F: count / kill around Python-level file operations on the database file and its companions
def _wrap_fs(name):
    real = getattr(os, name)

    def wrapped(*a, **kw):
        touches = STATE["armed"] and any(isinstance(x, (str, bytes)) and os.fsdecode(x).startswith(spec["db"]) for x in a)
        if touches:
            STATE["fs"] += 1
            me = STATE["fs"]
            if INJ and INJ["kind"] == "F" and INJ["j"] == me and INJ["phase"] == "before":
                die()
        r = real(*a, **kw)
        if touches and INJ and INJ["kind"] == "F" and INJ["j"] == me and INJ["phase"] == "after":
            die()
        return r
    setattr(os, name, wrapped)


for _n in ("remove", "unlink", "rename", "replace", "truncate"):
    _wrap_fs(_n)


# ---- injector B: count / kill around SQL statements and commits (installed before artap is imported)
import sqlite3  # noqa: E402

_real_connect = sqlite3.connect


def _event(phase, upsert=False):
    """called before and after every execute/commit once armed"""
    if not STATE["armed"]:
        return
    if phase == "before":
        STATE["sql"] += 1
        # injector E: the j-th statement, if it is the upsert of sync_individual, finds the database locked once
        # (what sqlite reports after its busy timeout when another connection holds the lock); the writer is killed
        # as soon as that synchronisation call has returned
        if INJ and INJ["kind"] == "E" and INJ["j"] == STATE["sql"] and upsert and STATE.get("in_sync_individual"):
            STATE["e_fired"] = True
            raise sqlite3.OperationalError("database is locked")
    if INJ and INJ["kind"] == "B" and INJ["j"] == STATE["sql"] and INJ["phase"] == phase:
        die()


class CrashCursor(sqlite3.Cursor):
    def execute(self, *a, **kw):
        _event("before", upsert=bool(a) and isinstance(a[0], str) and a[0].lstrip().upper().startswith("INSERT INTO INDIVIDUALS"))
        r = super().execute(*a, **kw)
        _event("after")
        return r


class CrashConn(sqlite3.Connection):
    def cursor(self, *a, **kw):
        return super().cursor(CrashCursor)

    def commit(self):
        _event("before")
        r = super().commit()
        _event("after")
        return r


def _connect(*a, **kw):
    kw.setdefault("factory", CrashConn)
    return _real_connect(*a, **kw)


sqlite3.connect = _connect

sys.path.insert(0, spec["root"])
import logging  # noqa: E402
logging.disable(logging.CRITICAL)
from artap.problem import Problem  # noqa: E402
from artap.individual import Individual  # noqa: E402
from artap.datastore import SqliteDataStore  # noqa: E402
from artap.algorithm import DummyAlgorithm  # noqa: E402

BLOB = {"big": "payload-" * 1024, "huge": "payload-" * 16384}.get(spec.get("payload"), "p")


def f(x):
    return [float(x[0]) ** 2 + float(x[1]), 3.0 * float(x[0]) - float(x[1]) + 0.123456789]


class P(Problem):
    def set(self, **kw):
        self.name = "crash-test ✓"
        self.description = "C11 writer"
        self.parameters = [{"name": "a", "bounds": [0.0, 2.0]}, {"name": "b", "bounds": [-1.0, 1.0], "precision": 1e-6}]
        self.costs = [{"name": "f0", "criteria": "minimize"}, {"name": "f1", "criteria": "maximize"}]

    def evaluate(self, individual):
        x0 = list(individual.vector)          # the model reads its input when it starts
        STATE["obj"] += 1
        if INJ and INJ["kind"] == "A" and INJ["k"] == STATE["obj"]:
            die()
        if spec.get("slow_ms"):
            time.sleep(spec["slow_ms"] / 1000.0)
        CLOCK[0] += spec.get("model_s") or 0.0
        if spec.get("slow_call") and STATE["obj"] == spec["slow_call"]:
            time.sleep(1.2)          # a model evaluation that (really) takes longer than the declared time_out of 0.5 s
        elif spec.get("slow_call") and STATE["obj"] > spec["slow_call"]:
            time.sleep(0.35)         # the following ones take a while too, but respect the limit
        if spec.get("fail_call") and STATE["obj"] == spec["fail_call"]:
            raise RuntimeError("the solver diverged (injected transient failure)")
        individual.custom["blob"] = BLOB + str(STATE["obj"])
        return f(x0)


def snap(ind):
    d = ind.to_dict()
    blob = json.dumps(d.get("custom"), sort_keys=True)
    return {"id": d["id"], "vector": d["vector"], "costs": list(d["costs"]), "costs_signed": d["costs_signed"],
            "state": d["state"], "population_id": d["population_id"],
            "custom_hash": hashlib.sha1(blob.encode()).hexdigest(),
            "features_hash": hashlib.sha1(json.dumps({k: v for k, v in d["features"].items()},
                                                     sort_keys=True, default=str).encode()).hexdigest()}


class LoggedStore(SqliteDataStore):
    def sync_individual(self, individual):
        s = snap(individual)
        log({"e": "TRY", "s": s})
        depth = STATE.get("in_sync_individual", 0)
        STATE["in_sync_individual"] = depth + 1
        try:
            super().sync_individual(individual)
        finally:
            STATE["in_sync_individual"] = depth
        log({"e": "ACK", "id": s["id"], "s": s})
        if depth == 0 and STATE.get("e_fired"):
            die()

    def sync_all(self):
        snaps = [snap(i) for i in self.problem.individuals]
        for s in snaps:
            log({"e": "TRY", "s": s, "all": True})
        super().sync_all()
        for s in snaps:
            log({"e": "ACK", "id": s["id"], "s": s, "all": True})


problem = P()
if spec.get("slow_call"):
    problem.options["time_out"] = 0.5
problem.data_store = LoggedStore(problem, database_name=spec["db"])
STATE["armed"] = True
log({"e": "ARMED"})
sys.stdout.write("ARMED\n")
sys.stdout.flush()
sys.stdout = open(os.devnull, "w")
sys.stderr = open(os.devnull, "w")

import random  # noqa: E402
random.seed(12345)
sc = spec["scenario"]
if sc in ("serial", "parallel"):
    alg = DummyAlgorithm(problem)
    if sc == "parallel":
        alg.options["max_processes"] = 3
    inds = [Individual([0.25 * (i + 1), 0.1 * i - 0.3]) for i in range(6)]
    for i in inds:
        problem.individuals.append(i)
    alg.evaluate(inds)
    problem.data_store.sync_all()
else:
    if sc == "nsga2":
        from artap.algorithm_NSGAII import NSGAII as Alg
        gens = 3
    elif sc == "epsmoea":
        from artap.algorithm_genetic import EpsMOEA as Alg
        gens = 2
    elif sc == "omopso":
        from artap.algorithm_swarm import OMOPSO as Alg
        gens = 2
    else:
        raise SystemExit("unknown scenario %r" % sc)
    alg = Alg(problem)
    alg.options["max_population_size"] = 4
    alg.options["max_population_number"] = gens
    alg.run()

log({"e": "COUNTS", "sql": STATE["sql"], "obj": STATE["obj"], "fs": STATE["fs"]})
log({"e": "DONE"})
os._exit(0)
