"""C11 reader process: a *fresh* process opens the database through artap's read-mode view and prints what it sees.

usage: reader.py <artap root> <db>
"""
import os
import sys
import json
import hashlib
import traceback

root, db = sys.argv[1], sys.argv[2]
sys.path.insert(0, root)
import logging  # noqa: E402
logging.disable(logging.CRITICAL)
out = {"ok": False}
try:
    from artap.problem import ProblemViewDataStore
    view = ProblemViewDataStore(database_name=db)
    rows = []
    for ind in view.individuals:
        blob = json.dumps(ind.custom, sort_keys=True)
        rows.append({"id": ind.id, "vector": ind.vector, "costs": ind.costs, "costs_signed": ind.costs_signed,
                     "state": ind.state, "population_id": ind.population_id,
                     "custom_hash": hashlib.sha1(blob.encode()).hexdigest(),
                     "features_hash": hashlib.sha1(json.dumps(ind.features, sort_keys=True,
                                                              default=str).encode()).hexdigest()})
    out = {"ok": True, "name": view.name, "description": view.description, "parameters": view.parameters,
           "costs": view.costs, "rows": rows}
    import sqlite3
    con = sqlite3.connect(db)
    out["integrity"] = [r[0] for r in con.execute("PRAGMA integrity_check")]
    out["raw_rows"] = con.execute("SELECT count(*) FROM individuals").fetchone()[0]
    con.close()
except BaseException as e:  # noqa
    out = {"ok": False, "error": "%s: %s" % (type(e).__name__, e), "trace": traceback.format_exc()[-1500:]}
sys.stdout.write(json.dumps(out))
sys.stdout.flush()
os._exit(0)
