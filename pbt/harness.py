"""Harness-side helpers around artap objects (no edits under /repo)."""
import os
import atexit
import shutil
import logging
import random

from .core import HarnessError


NAME_STYLES = ("x", "x", "rev", "words")
_WORDS = ["width", "height", "depth", "radius", "angle", "current", "turns", "gap", "mass", "length", "offset", "bias"]


def pname(i, style="x"):
    """parameter names are the user's: numbered (sorted for < 10), in descending alphabetical order, or descriptive"""
    if style == "rev":
        return "p%02d" % (99 - i)
    if style == "words":
        return _WORDS[i % len(_WORDS)] + ("" if i < len(_WORDS) else str(i // len(_WORDS)))
    return "x%d" % i


def npcosts(v, as_numpy):
    """signed costs as Individual.calc_signed_costs really stores them: numpy float64 objectives followed by the marker"""
    if not as_numpy:
        return list(v)
    import numpy as np
    if as_numpy == "ndarray":
        # one float64 array (a row of a results table); the marker False / True / 0.5 becomes 0.0 / 1.0 / 0.5
        return np.array([float(x) for x in v], dtype=float)
    return [np.float64(x) for x in v[:-1]] + [v[-1]]


def params(bounds, extra=None):
    out = []
    for i, (lb, ub) in enumerate(bounds):
        p = {"name": "x%d" % i, "bounds": [lb, ub]}
        if extra:
            p.update(extra[i] if isinstance(extra, list) else extra)
        out.append(p)
    return out


def make_problem(parameters, costs, evaluate, constraints=None, name="pbt", cls_name="HProblem"):
    """A user Problem whose objective is harness code."""
    from artap.problem import Problem

    def _set(self, **kwargs):
        self.name = name
        self.parameters = [dict(p) for p in parameters]
        self.costs = [dict(c) for c in costs]

    def _evaluate(self, individual):
        return evaluate(individual)

    ns = {"set": _set, "evaluate": _evaluate}
    if constraints is not None:
        ns["evaluate_inequality_constraints"] = lambda self, x: constraints(x)
    cls = type(cls_name, (Problem,), ns)
    return cls()


def dispose(problem):
    """Problem registers an atexit hook, a logger and a temp dir per instance; release them now."""
    try:
        atexit.unregister(problem.cleanup)
    except Exception:
        pass
    try:
        ds = getattr(problem, "data_store", None)
        if ds is not None:
            ds.destroy()
    except Exception:
        pass
    lg = getattr(problem, "logger", None)
    if lg is not None:
        for h in list(lg.handlers):
            lg.removeHandler(h)
            try:
                h.close()
            except Exception:
                pass
        logging.Logger.manager.loggerDict.pop(lg.name, None)
    wd = getattr(problem, "working_dir", None)
    if wd and os.path.isdir(wd) and os.path.basename(wd.rstrip(os.sep)).startswith("artap-"):
        shutil.rmtree(wd, ignore_errors=True)


class Patched:
    """temporarily replace attributes (monkey-patching inside the harness process only)"""

    def __init__(self, *triples):
        self.triples = triples
        self.saved = []

    def __enter__(self):
        for obj, name, new in self.triples:
            if not hasattr(obj, name):
                raise HarnessError("cannot wrap %r.%s: it no longer exists" % (obj, name))
            self.saved.append((obj, name, getattr(obj, name)))
            setattr(obj, name, new)
        return self

    def __exit__(self, *a):
        for obj, name, old in reversed(self.saved):
            setattr(obj, name, old)
        return False


def seed_all(s):
    random.seed(s)
    try:
        import numpy as np
        np.random.seed(s % (2 ** 32))
    except Exception:
        pass


def mk_ind(vector, costs_signed=None, costs=None, cls=None, **features):
    from artap.individual import Individual
    ind = (cls or Individual)(list(vector))
    if costs_signed is not None:
        ind.costs_signed = list(costs_signed)
    if costs is not None:
        ind.costs = list(costs)
    for k, v in features.items():
        ind.features[k] = v
    return ind
