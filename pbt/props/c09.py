"""C09 - runs keep exact generation bookkeeping, budget and generational elitism; steady-state acceptance."""
import os
import random
from hypothesis import strategies as st

from ..core import Clause, Violation, guard, HarnessError
from .. import oracles as O
from ..harness import make_problem, dispose, seed_all, Patched, params

PROPERTY = "C09"
LEVEL = "exploration"
RULE = ("runs: algorithm in {NSGAII, EpsMOEA, OMOPSO, SMPSO}, N=2..10, G=1..6, n=1..4, m=1..3, seed, optional transient "
        "failure plan by global call index (at most 4 consecutive); oracle: successful calls == N*G (NSGA-II, "
        "generations 1..G) resp. N*(G+1) (generations 0..G), N designs per generation, no repeated design within an "
        "NSGA-II generation >= 2, no survivor dominated by a dropped design of the previous generation, best cost "
        "monotone for m=1, population size constant at every acceptance step inside EpsMOEA; unit level: "
        "pop_acceptance on drawn populations (grid, antichain) with Pareto / epsilon comparators in its three "
        "categories. Non-trivial = G>=3, or a run with >= 1 injected failure / an acceptance case")
ASSUMPTIONS = ["repeated designs in the start population (coarse declared precision, custom start lists) are part of the "
               "domain: generation 1 may repeat a design, later generations may not",
               "epsilon comparator on separated values only; identical cost vectors under epsilon are classified by the "
               "tie-break, so only the weak clause is asserted there"]


@st.composite
def run_cases(draw):
    n = draw(st.integers(1, 4))
    m = draw(st.integers(1, 3))
    fails = []
    if draw(st.booleans()):
        starts = draw(st.lists(st.one_of(st.integers(0, 9), st.integers(0, 60)), min_size=1, max_size=4, unique=True))
        for s in starts:
            fails.extend(range(s, s + draw(st.integers(1, 2))))
        fails = sorted(set(fails))
        # at most 4 consecutive failing call indices
        run = 0
        prev = None
        keep = []
        for f in fails:
            run = run + 1 if prev is not None and f == prev + 1 else 1
            if run <= 4:
                keep.append(f)
            else:
                run = 0
            prev = f
        fails = keep
    return {"alg": draw(st.sampled_from(["NSGAII", "NSGAII", "EpsMOEA", "OMOPSO", "SMPSO"])), "n": n, "m": m,
            "N": draw(st.integers(2, 10)), "G": draw(st.integers(1, 6)), "seed": draw(st.integers(0, 2 ** 31)),
            "fails": fails,
            # objective landscape: smooth, plateaus (integer-valued costs: many distinct designs share a cost vector)
            # or tiny magnitudes (all signed costs round to 0 at the stored precision)
            "landscape": draw(st.sampled_from(["smooth", "smooth", "plateau", "tiny"])),
            # start population: random, random on a coarse declared grid (repeated designs), or a custom list that
            # names a design twice
            "start": draw(st.sampled_from(["random", "random", "grid", "custom-twins"])),
            # the run is recorded in an SQLite store as well: the stored record must show the same generations
            "store": draw(st.sampled_from([False, False, True])),
            # an inequality constraint g(x) = c - x0 < 0 (designs with x0 <= c are infeasible although their objective
            # values are the better ones): elitism then means constrained dominance - feasibility first
            "constraint": draw(st.one_of(st.none(), st.none(), st.sampled_from([-1.0, 0.0, 0.3, 1.0]))),
            # the model refuses ONCE to recompute a design it has already evaluated (a solver that rejects a duplicate
            # job): the transient failure then hits exactly the offspring that are unmodified copies of a parent
            "fail_repeat": draw(st.sampled_from([False, False, True])),
            # a large population on a one-parameter problem (many matings produce nothing new)
            "big": draw(st.sampled_from([None, None, None, None, 100, 200]))}


def check_run(case):
    from artap.operators import Selector
    from .c08 import algorithm_class
    n, m, N, G = case["n"], case["m"], case["N"], case["G"]
    if case.get("big"):
        n, N, G = 1, case["big"], min(G, 2)
    fails = set(case["fails"]) if not case.get("big") else set()
    refused = set()
    seen_vec = set()
    calls = [0]
    ok_calls = []
    fail_vecs = []

    def ev(ind):
        k = calls[0]
        calls[0] += 1
        if k in fails:
            fail_vecs.append(list(ind.vector))
            raise RuntimeError("injected")
        key_ = tuple(ind.vector)
        if case.get("fail_repeat") and key_ in seen_vec and key_ not in refused:
            refused.add(key_)
            fail_vecs.append(list(ind.vector))
            raise RuntimeError("duplicate job refused (injected, once per design)")
        seen_vec.add(key_)
        ok_calls.append(tuple(ind.vector))
        x = ind.vector
        f = [sum((xi - 0.3 * (j + 1)) ** 2 for xi in x) + 0.05 * j * x[0] for j in range(m)]
        if case.get("landscape") == "plateau":
            f = [float(round(v)) for v in f]
        elif case.get("landscape") == "tiny":
            f = [v * 1e-12 for v in f]
        return f
    ps = [{"name": "x%d" % i, "bounds": [-2.0, 3.0]} for i in range(n)]
    if case.get("start") == "grid":
        for p_ in ps:
            p_["precision"] = 0.5
    cs = [{"name": "f%d" % j, "criteria": "minimize"} for j in range(m)]
    cons = case.get("constraint")
    prob = make_problem(ps, cs, ev, constraints=(lambda x: [cons - float(x[0])]) if cons is not None else None)
    seed_all(case["seed"])
    sizes = []
    real_acc = Selector.pop_acceptance

    def spy(self, individuals, individual):
        before = len(individuals)
        out = real_acc(self, individuals, individual)
        sizes.append((before, len(individuals)))
        return out
    stored = None
    try:
        with Patched((Selector, "pop_acceptance", spy)):
            with guard("runs"):
                if case.get("store"):
                    from artap.datastore import SqliteDataStore
                    db = os.path.join(prob.working_dir, "c09.sqlite")
                    prob.data_store = SqliteDataStore(prob, database_name=db)
                alg = algorithm_class(case["alg"])(prob)
                alg.options["max_population_size"] = N
                alg.options["max_population_number"] = G
                if case.get("start") == "custom-twins" and case["alg"] == "NSGAII":
                    from artap.operators import CustomGenerator
                    random.seed(case["seed"] + 1)
                    vs = [[random.uniform(-2.0, 3.0) for _ in range(n)] for _ in range(N)]
                    vs[-1] = list(vs[0])           # the same design twice in the start population
                    gen = CustomGenerator(prob.parameters)
                    gen.init(vs)
                    alg.generator = gen
                    seed_all(case["seed"])
                alg.run()
        pops = prob.populations()
        pops = {k: list(v) for k, v in pops.items()}
        if case.get("store"):
            from artap.problem import ProblemViewDataStore
            view = None
            try:
                with guard("runs"):
                    view = ProblemViewDataStore(database_name=db)
                    stored = {k: sorted(tuple(i.vector) for i in v) for k, v in view.populations().items()}
            finally:
                if view is not None:
                    dispose(view)
    finally:
        dispose(prob)
    alg_name = case["alg"]
    first = 1 if alg_name == "NSGAII" else 0
    init = ok_calls[:N]
    twins = len(set(init)) != len(init)     # repeated designs in the start population are legitimate input: the
    #                                          N offspring are pairwise distinct, so every later generation still
    #                                          has N distinct designs to choose from
    exp_keys = list(range(first, G + 1))
    exp_calls = N * G if alg_name == "NSGAII" else N * (G + 1)
    if len(ok_calls) != exp_calls:
        raise Violation("runs", "%s:budget" % alg_name, "%s N=%d G=%d: %d successful objective calls, expected %d "
                        "(%d injected failures)" % (alg_name, N, G, len(ok_calls), exp_calls, len(fail_vecs)))
    if sorted(pops.keys()) != exp_keys:
        raise Violation("runs", "%s:generation-keys" % alg_name, "%s N=%d G=%d: generations %r, expected %r" % (
            alg_name, N, G, sorted(pops.keys()), exp_keys))
    for g in exp_keys:
        if len(pops[g]) != N:
            raise Violation("runs", "%s:generation-size" % alg_name, "%s N=%d G=%d: generation %d has %d designs" % (
                alg_name, N, G, g, len(pops[g])))
    if stored is not None:
        # every design the run recorded in generation g must be found in generation g of the stored record (the store
        # also keeps evaluated designs that no generation retained - NSGA-II's rejected offspring - under other tags)
        from collections import Counter
        for g, members in sorted(pops.items()):
            lost = Counter(tuple(i.vector) for i in members) - Counter(stored.get(g, []))
            if lost:
                raise Violation("runs", "%s:stored-record-incomplete" % alg_name, "%s N=%d G=%d: generation %d has %d "
                                "recorded designs, the SQLite record read back shows %d of them (stored generation "
                                "sizes %r)" % (alg_name, N, G, g, len(members), len(members) - sum(lost.values()),
                                               {k: len(v) for k, v in sorted(stored.items())}))
    if alg_name == "NSGAII":
        for g in exp_keys:
            vs = [tuple(i.vector) for i in pops[g]]
            if g >= 2 and len(set(vs)) != len(vs):
                raise Violation("runs", "NSGAII:repeated-design", "generation %d repeats a design: %r" % (g, vs))
        for g in exp_keys[:-1]:
            cur = {tuple(i.vector): i for i in pops[g]}
            nxt = {tuple(i.vector): i for i in pops[g + 1]}
            dropped = [i for v, i in cur.items() if v not in nxt]
            for s in nxt.values():
                for d in dropped:
                    # the harness problem has no constraints: every design is equally feasible, so the comparison
                    # is on the objectives alone (a marker that differs between designs must not excuse a loss)
                    if cons is not None:
                        # feasibility recomputed by the harness from the design vectors, then the textbook verdict
                        dv = list(d.costs_signed[:-1]) + [not (cons - float(d.vector[0]) < 0)]
                        sv = list(s.costs_signed[:-1]) + [not (cons - float(s.vector[0]) < 0)]
                        if O.verdict(dv, sv) == 1:
                            raise Violation("runs", "NSGAII:elitism:constrained", "generation %d keeps %r (costs %r, %s) "
                                            "although the dropped design %r of generation %d (costs %r, %s) dominates it" % (
                                                g + 1, s.vector, s.costs_signed[:-1], "infeasible" if sv[-1] else "feasible",
                                                d.vector, g, d.costs_signed[:-1], "infeasible" if dv[-1] else "feasible"))
                        continue
                    if O.dominates_obj(list(d.costs_signed[:-1]), list(s.costs_signed[:-1])):
                        raise Violation("runs", "NSGAII:elitism", "generation %d keeps %r (costs %r) although the dropped "
                                        "design %r of generation %d (costs %r) dominates it" % (
                                            g + 1, s.vector, s.costs_signed, d.vector, g, d.costs_signed))
            if m == 1 and cons is None:
                b0 = min(i.costs_signed[0] for i in pops[g])
                b1 = min(i.costs_signed[0] for i in pops[g + 1])
                if b1 > b0:
                    raise Violation("runs", "NSGAII:best-got-worse", "best cost %r in generation %d, %r in %d" % (
                        b0, g, b1, g + 1))
    if alg_name == "EpsMOEA":
        if len(sizes) != N * G:
            raise HarnessError("pop_acceptance observed %d times, expected %d: wrapper lost" % (len(sizes), N * G))
        for a, b in sizes:
            if a != N or b != N:
                raise Violation("runs", "EpsMOEA:working-population-size", "acceptance step changed the working "
                                "population from %d to %d (N=%d)" % (a, b, N))
    return {"nt": G >= 3 or bool(fail_vecs), "classes": [alg_name, "G>=3" if G >= 3 else "G<3",
                                                        "failures" if fail_vecs else "clean",
                                                        case.get("landscape", "smooth"), "start:" + case.get("start", "random")]
            + (["twins-in-start"] if twins else []) + (["sqlite-record"] if stored is not None else []) + (["constrained"] if cons is not None else []) + (["repeat-refused"] if refused else []) + (
                ["big-population"] if case.get("big") else [])}


# ---------------------------------------------------------------- pop_acceptance, unit level

@st.composite
def acceptance_cases(draw):
    m = draw(st.integers(1, 3))
    k = draw(st.integers(1, 10))
    shape = draw(st.sampled_from(["grid", "antichain", "antichain"]))
    pop = []
    for i in range(k):
        if shape == "antichain" and m >= 2:
            a = draw(st.integers(0, 8))
            pop.append([float(a), float(8 - a)] + [0.0] * (m - 2))
        else:
            pop.append([float(draw(st.integers(0, 3))) for _ in range(m)])
    if shape == "antichain" and m >= 2:
        a = draw(st.integers(0, 8))
        off = [float(a), float(8 - a + draw(st.sampled_from([-2, -1, 0, 0, 1, 2])))] + [0.0] * (m - 2)
    else:
        off = [float(draw(st.integers(0, 3))) for _ in range(m)]
    cmpk = draw(st.sampled_from(["pareto", "pareto", "eps"]))
    eps = draw(st.lists(st.sampled_from([0.1, 0.5, 1.0, 2.0]), min_size=1, max_size=3)) if cmpk == "eps" else None
    return {"pop": pop, "off": off, "cmp": cmpk, "eps": eps, "seed": draw(st.integers(0, 2 ** 31))}


def check_acceptance(case):
    from artap.individual import Individual
    from artap.operators import TournamentSelector, ParetoDominance, EpsilonDominance
    pop, off = case["pop"], case["off"]
    with guard("acceptance"):
        if case["cmp"] == "pareto":
            sel = TournamentSelector(params([(0.0, 1.0)]), dominance=ParetoDominance)
        else:
            sel = TournamentSelector(params([(0.0, 1.0)]), dominance=EpsilonDominance, epsilons=list(case["eps"]))
        members = []
        for j, c in enumerate(pop):
            ind = Individual([float(j)])
            ind.costs_signed = list(c) + [True]
            members.append(ind)
        o = Individual([-1.0])
        o.costs_signed = list(off) + [True]
        work = list(members)
        random.seed(case["seed"])
        sel.pop_acceptance(work, o)
    if len(work) != len(members):
        raise Violation("acceptance", "size-changed", "population of %d became %d (pop %r, offspring %r, %s)" % (
            len(members), len(work), pop, off, case["cmp"]))
    gone = [x for x in members if all(x is not w for w in work)]
    inside = any(w is o for w in work)
    if any(all(w is not x for x in members) and w is not o for w in work):
        raise Violation("acceptance", "foreign-member", "population holds an unknown object")
    if len(gone) != (1 if inside else 0):
        raise Violation("acceptance", "shape", "%d members removed, offspring inside=%r" % (len(gone), inside))
    v = [O.verdict(list(o.costs_signed), list(x.costs_signed)) for x in members]
    dominated_members = [x for x, r in zip(members, v) if r == 1]
    dominated = any(r == 2 for r in v)
    identical = any(list(x.costs_signed) == list(o.costs_signed) for x in members)
    if case["cmp"] == "eps" and identical:
        return {"nt": True, "classes": ["eps-identical"]}
    if dominated_members:
        if not inside or gone[0] not in dominated_members:
            raise Violation("acceptance", "dominating-offspring", "offspring %r dominates %r but %s (pop %r, %s)" % (
                off, [x.costs_signed[:-1] for x in dominated_members],
                "was rejected" if not inside else "replaced %r" % (gone[0].costs_signed[:-1],), pop, case["cmp"]))
        cat = "dominates"
    elif dominated:
        if inside:
            raise Violation("acceptance", "dominated-offspring-accepted", "offspring %r is dominated and dominates "
                            "nobody but replaced %r (pop %r, %s)" % (off, gone[0].costs_signed[:-1], pop, case["cmp"]))
        cat = "dominated"
    else:
        if not inside:
            raise Violation("acceptance", "incomparable-offspring-rejected", "offspring %r is incomparable with every "
                            "member of %r but was rejected (%s)" % (off, pop, case["cmp"]))
        cat = "incomparable"
    return {"nt": True, "classes": [cat, case["cmp"]]}


CLAUSES = [
    Clause("runs", run_cases(), check_run, quick=200, thorough=1500, quick_shards=4),
    Clause("acceptance", acceptance_cases(), check_acceptance, quick=3000, thorough=30000, quick_shards=2),
]
