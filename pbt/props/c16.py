"""C16 - multi-objective benchmarks satisfy the defining identities of their families."""
import math
import atexit
from hypothesis import strategies as st

from ..core import Clause, Violation, guard

PROPERTY = "C16"
LEVEL = "exploration"
RULE = ("points of the unit box for DTLZ1 (m=2..6, k=1..8) and DTLZ2-4 (m=2..6, dimension m+9): coordinates from "
        "{0, 1, 0.5, uniform floats}, position variables deliberately not tied to 0.5, the Pareto-set slice (distance "
        "variables 0.5) as its own class; ZDT1 (30-D); the bi-objective problem on its box [0.1,1]x[0,5]. Oracle: "
        "sum f == (1+g1)/2, ||f|| == 1+g, ZDT1 f1==x1 and f2 == g(1-sqrt(f1/g)), f1*f2 == 1+x2, all objectives >= "
        "-1e-9; relative tolerance 1e-9. Non-trivial = at least two position variables differ from each other and "
        "from 0.5 (DTLZ); a point with x1 not in {0,1} (ZDT1 / bi-objective)")
ASSUMPTIONS = ["g functions taken from Deb et al. 2002 (DTLZ) and Zitzler et al. 2000 (ZDT1) as cited in the docstrings",
               "relative tolerance 1e-9 on the identities (products of up to 5 cos/sin factors)"]

_cache = {}


def bench(cls_name, **kw):
    key = (cls_name, tuple(sorted(kw.items())))
    if key not in _cache:
        import artap.benchmark_pareto as bp
        obj = getattr(bp, cls_name)(**kw)
        try:
            atexit.unregister(obj.cleanup)
        except Exception:
            pass
        _cache[key] = obj
    return _cache[key]


VEC = st.sampled_from(["list", "list", "ndarray", "npfloats"])


def mk_vec(x, kind):
    """the design vector as callers hand it over: a list of floats, a float64 ndarray (what SciPy-style optimisers
    pass) or a list of numpy floats"""
    if kind == "ndarray":
        import numpy as np
        return np.array(x, dtype=float)
    if kind == "npfloats":
        import numpy as np
        return [np.float64(v) for v in x]
    return list(x)


def evaluate_at(clause, prob, x, kind):
    """f(x), and the point must still be x afterwards (evaluating a design does not move it)"""
    from artap.individual import Individual
    ind = Individual(mk_vec(x, kind))
    f = prob.evaluate(ind)
    after = [float(v) for v in ind.vector]
    if after != [float(v) for v in x]:
        raise Violation(clause, "design-moved-by-evaluate:%s" % (kind or "list"),
                        "%s: evaluating the design changed its vector from %r to %r" % (type(prob).__name__, x, after))
    return f


unit = st.one_of(st.sampled_from([0.0, 1.0, 0.5, 0.25, 0.75]), st.floats(0.0, 1.0, allow_nan=False),
                 st.floats(0.0, 1.0, allow_nan=False))


@st.composite
def dtlz_cases(draw, family):
    m = draw(st.integers(2, 6))
    if family == "DTLZI":
        k = draw(st.integers(1, 8))
    else:
        k = 10
        family = draw(st.sampled_from(["DTLZII", "DTLZIII", "DTLZIV"]))
    n = m + k - 1
    pos = draw(st.lists(unit, min_size=m - 1, max_size=m - 1))
    if draw(st.integers(0, 3)) == 0:
        dist = [0.5] * k      # the Pareto-optimal slice
    else:
        dist = draw(st.lists(unit, min_size=k, max_size=k))
    case = {"family": family, "m": m, "x": pos + dist, "vec": draw(VEC)}
    kind = draw(st.integers(0, 7))
    if kind in (0, 1):
        case["before"] = [draw(unit) for _ in range(n)]
    elif kind == 2:
        case["held"] = [[draw(unit) for _ in range(n)] for _ in range(draw(st.integers(1, 3)))]
    return case


def g1(xm):
    return 100.0 * (len(xm) + sum((y - 0.5) ** 2 - math.cos(20.0 * math.pi * (y - 0.5)) for y in xm))


def g2(xm):
    return sum((y - 0.5) ** 2 for y in xm)


def check_dtlz(case):
    from artap.individual import Individual
    fam, m, x = case["family"], case["m"], case["x"]
    n = len(x)
    k = n - m + 1
    held = None
    with guard("dtlz"):
        prob = bench(fam, dimension=n, m=m)
        if case.get("held"):
            # a FRESH problem object; the objective list returned for the case's point is kept (as Job.evaluate keeps it in
            # individual.costs) while further points are evaluated on the same object, and judged afterwards
            import artap.benchmark_pareto as bp
            from artap.individual import Individual
            from ..harness import dispose
            prob = getattr(bp, fam)(dimension=n, m=m)
            try:
                held = prob.evaluate(Individual(mk_vec(x, case.get("vec"))))
                for other in case["held"]:
                    prob.evaluate(Individual(list(other)))
            finally:
                dispose(prob)
            f = held
        elif case.get("before"):
            # the same Individual object was evaluated at another point before and then moved IN PLACE (coordinate
            # assignment, as position updates and parameter sweeps do): its objectives must be those of the new point
            from artap.individual import Individual
            ind0 = Individual(mk_vec(case["before"], case.get("vec")))
            prob.evaluate(ind0)
            for i_, v_ in enumerate(x):
                ind0.vector[i_] = v_
            f = prob.evaluate(ind0)
        else:
            f = evaluate_at("dtlz", prob, x, case.get("vec"))
    f = [float(v) for v in f]
    if len(f) != m:
        raise Violation("dtlz", "%s:objective-count" % fam, "%d objectives returned for m=%d" % (len(f), m))
    if any(not math.isfinite(v) for v in f):
        raise Violation("dtlz", "%s:non-finite" % fam, "objectives %r at %r" % (f, x))
    xm = x[n - k:]
    if fam == "DTLZI":
        g = g1(xm)
        lhs, rhs, what = sum(f), 0.5 * (1.0 + g), "sum f == (1+g)/2"
    else:
        g = g1(xm) if fam == "DTLZIII" else g2(xm)
        lhs, rhs, what = math.sqrt(sum(v * v for v in f)), 1.0 + g, "||f|| == 1+g"
    tol = 1e-9 * max(1.0, abs(rhs))
    if abs(lhs - rhs) > tol:
        raise Violation("dtlz", "%s:identity" % fam, "%s m=%d x=%r: %s violated: %r vs %r" % (fam, m, x, what, lhs, rhs))
    if any(v < -1e-9 * max(1.0, abs(rhs)) for v in f):
        raise Violation("dtlz", "%s:negative-objective" % fam, "%s m=%d x=%r: objectives %r" % (fam, m, x, f))
    pos = x[:m - 1]
    on_slice = all(y == 0.5 for y in xm)
    # for DTLZ4 the position variables enter as x^100: values below ~0.9 all act like 0
    vals = [p for p in pos if p != 0.5]
    nt = len(set(vals)) >= 2 or (m == 2 and len(vals) == 1)
    return {"nt": nt, "classes": [fam, "m%d" % m, "pareto-slice" if on_slice else "off-slice", case.get("vec") or "list"] + (
        ["moved-in-place"] if case.get("before") else []) + (["result-held-while-others-evaluated"] if case.get("held") else [])}


@st.composite
def zdt_cases(draw):
    x = draw(st.lists(unit, min_size=30, max_size=30))
    return {"x": x, "vec": draw(VEC)}


def check_zdt1(case):
    from artap.individual import Individual
    x = case["x"]
    with guard("zdt1"):
        prob = bench("ZDT1")
        f = evaluate_at("zdt1", prob, x, case.get("vec"))
    if len(f) != 2:
        raise Violation("zdt1", "objective-count", "%d objectives" % len(f))
    f1, f2 = float(f[0]), float(f[1])
    g = 1.0 + 9.0 * (sum(x[1:]) / (len(x) - 1))
    exp = g * (1.0 - math.sqrt(x[0] / g))
    if f1 != x[0]:
        raise Violation("zdt1", "f1", "f1=%r for x1=%r" % (f1, x[0]))
    if abs(f2 - exp) > 1e-9 * max(1.0, abs(exp)):
        raise Violation("zdt1", "f2-identity", "f2=%r, g(1-sqrt(f1/g))=%r with g=%r at x=%r" % (f2, exp, g, x))
    if f1 < 0 or f2 < -1e-9:
        raise Violation("zdt1", "negative-objective", "f=%r" % ([f1, f2],))
    return {"nt": x[0] not in (0.0, 1.0) and len(set(x[1:])) > 1, "classes": ["zdt1"]}


@st.composite
def biobj_cases(draw):
    x1 = draw(st.one_of(st.sampled_from([0.1, 1.0, 0.5]), st.floats(0.1, 1.0, allow_nan=False)))
    x2 = draw(st.one_of(st.sampled_from([0.0, 5.0, 1.0]), st.floats(0.0, 5.0, allow_nan=False)))
    return {"x": [x1, x2], "vec": draw(VEC)}


def check_biobj(case):
    from artap.individual import Individual
    x = case["x"]
    with guard("biobjective"):
        prob = bench("BiObjectiveTestProblem")
        f = evaluate_at("biobjective", prob, x, case.get("vec"))
    if len(f) != 2:
        raise Violation("biobjective", "objective-count", "%d objectives" % len(f))
    f1, f2 = float(f[0]), float(f[1])
    if abs(f1 * f2 - (1.0 + x[1])) > 1e-9 * (1.0 + x[1]):
        raise Violation("biobjective", "identity", "f1*f2=%r, 1+x2=%r at %r" % (f1 * f2, 1.0 + x[1], x))
    if f1 < 0 or f2 < 0:
        raise Violation("biobjective", "negative-objective", "f=%r" % ([f1, f2],))
    return {"nt": x[0] not in (0.1, 1.0), "classes": ["biobjective"]}


# ---------------------------------------------------------------- one problem object, several evaluating threads

@st.composite
def concurrent_cases(draw):
    fam = draw(st.sampled_from(["ZDT1", "ZDT1", "DTLZI", "DTLZII", "DTLZIII", "DTLZIV", "BiObjectiveTestProblem"]))
    return {"family": fam, "m": draw(st.integers(2, 4)), "threads": draw(st.integers(2, 4)),
            "seed": draw(st.integers(0, 2 ** 31))}


def check_concurrent(case):
    """the parallel evaluator hands one problem object to several worker threads: every thread must get the objectives
    of ITS point (compared with a single-threaded pass over the same points)"""
    import sys
    import random as _r
    import threading
    from artap.individual import Individual
    fam = case["family"]
    rng = _r.Random(case["seed"])
    with guard("concurrent"):
        if fam.startswith("DTLZ"):
            m = case["m"]
            k = 5 if fam == "DTLZI" else 10
            n = m + k - 1
            prob = bench(fam, dimension=n, m=m)
            mk = lambda: [rng.random() for _ in range(n)]
        elif fam == "ZDT1":
            prob = bench("ZDT1")
            mk = lambda: [rng.random() for _ in range(30)]
        else:
            prob = bench("BiObjectiveTestProblem")
            mk = lambda: [0.1 + 0.9 * rng.random(), 5.0 * rng.random()]
    per = 120
    pts = [[mk() for _ in range(per)] for _ in range(case["threads"])]
    with guard("concurrent"):
        want = [[[float(v) for v in prob.evaluate(Individual(list(x)))] for x in row] for row in pts]
    got = [[None] * per for _ in pts]
    errs = []

    def work(t):
        try:
            for j, x in enumerate(pts[t]):
                got[t][j] = [float(v) for v in prob.evaluate(Individual(list(x)))]
        except BaseException as e:  # noqa
            errs.append(e)
    old = sys.getswitchinterval()
    sys.setswitchinterval(1e-6)
    try:
        ths = [threading.Thread(target=work, args=(t,)) for t in range(len(pts))]
        for th in ths:
            th.start()
        for th in ths:
            th.join()
    finally:
        sys.setswitchinterval(old)
    if errs:
        raise Violation("concurrent", "%s:raises-under-threads" % fam, "%s raised %r when evaluated from %d threads" % (
            fam, errs[0], len(pts)))
    for t in range(len(pts)):
        for j in range(per):
            if got[t][j] != want[t][j]:
                raise Violation("concurrent", "%s:other-threads-leak-in" % fam, "%s evaluated from %d threads: point %r got "
                                "%r, single-threaded %r" % (fam, len(pts), pts[t][j], got[t][j], want[t][j]))
    return {"nt": True, "classes": [fam, "threads%d" % len(pts)]}


CLAUSES = [
    Clause("dtlz1", dtlz_cases("DTLZI"), check_dtlz, quick=1500, thorough=20000),
    Clause("dtlz234", dtlz_cases("DTLZ234"), check_dtlz, quick=4500, thorough=60000, quick_shards=3),
    Clause("zdt1", zdt_cases(), check_zdt1, quick=1500, thorough=20000),
    Clause("biobjective", biobj_cases(), check_biobj, quick=1500, thorough=20000),
    Clause("concurrent", concurrent_cases(), check_concurrent, quick=60, thorough=600, quick_shards=2),
]
