"""C03 - environmental selection: rank first, then crowding, no duplicates; crowding distance; binary tournament."""
import math
import random
from hypothesis import strategies as st

from ..core import Clause, Violation, guard
from .. import oracles as O
from ..harness import Patched, params, npcosts

PROPERTY = "C03"
LEVEL = "exploration"
RULE = ("crowding: fronts of 0..15 members, m=1..4, tie-free fronts built from per-objective permutations of distinct "
        "values, tied fronts from small grids, zero-range objectives; truncate: populations of pool designs (same "
        "vector => same costs, distinct objects, hash-colliding -1.0/-2.0 coordinates, vectors differing only in the "
        "first coordinate) ranked by the real sorter, k=1..n+3; tournament: populations of 1..10 with drawn front "
        "numbers/costs, random.sample wrapped by a recording pass-through. Non-trivial = a tie-free front with an "
        "interior point / a truncation that cuts a front of >= 3 members / a tournament whose two candidates differ "
        "in front number or are comparable")
ASSUMPTIONS = ["with duplicated designs only designs (not representatives) are compared",
               "the exact interior formula is asserted on tie-free fronts only (as the property states)",
               "crowding reference tolerance 1e-12 relative"]


# ---------------------------------------------------------------- crowding distance

@st.composite
def fronts(draw):
    m = draw(st.integers(1, 4))
    n = draw(st.integers(0, 15))
    kind = draw(st.sampled_from(["tiefree", "tiefree", "grid", "zero-range", "offset"]))
    rows = [[0.0] * m for _ in range(n)]
    for k in range(m):
        if kind == "offset":
            # tie-free, but the spread is tiny compared with the magnitude (a mass of 1000 kg varying by grams)
            base = draw(st.sampled_from([1000.0, 2.4e9, -5e4, 1.0]))
            steps = draw(st.lists(st.integers(1, 10 ** 6), min_size=n, max_size=n, unique=True))
            vals = [base + st_ * abs(base) * 1e-9 for st_ in steps]
            if len(set(vals)) != n:
                vals = [base + j for j in range(n)]
        elif kind == "tiefree" or (kind == "zero-range" and k > 0):
            vals = draw(st.lists(st.one_of(st.integers(-50, 50).map(float),
                                           st.floats(-1e3, 1e3, allow_nan=False).map(lambda x: round(x, 3))),
                                 min_size=n, max_size=n, unique=True))
        elif kind == "grid":
            vals = [float(draw(st.integers(0, 3))) for _ in range(n)]
        else:
            vals = [1.5] * n
        for i in range(n):
            rows[i][k] = vals[i]
    return {"front": rows, "kind": kind}


def check_crowding(case):
    from artap.individual import Individual
    from artap.operators import crowding_distance
    rows = case["front"]
    n = len(rows)
    m = len(rows[0]) if rows else 0
    with guard("crowding"):
        inds = []
        for r in rows:
            ind = Individual([0.0])
            ind.costs_signed = list(r) + [True]
            inds.append(ind)
        work = list(inds)
        crowding_distance(work)
    if sorted(map(id, work)) != sorted(map(id, inds)):
        raise Violation("crowding", "front-changed", "crowding_distance changed the membership of the front")
    got = [i.features.get("crowding_distance") for i in inds]
    if n == 0:
        return {"nt": False, "classes": ["empty"]}
    if any(g is None or (isinstance(g, float) and math.isnan(g)) for g in got):
        raise Violation("crowding", "missing", "crowding distances %r" % (got,))
    if n <= 2:
        if any(g != math.inf for g in got):
            raise Violation("crowding", "small-front-not-inf", "front of %d: %r" % (n, got))
        return {"nt": False, "classes": ["n<=2"]}
    tiefree = all(len(set(r[k] for r in rows)) == n for k in range(m))
    if any(g < 0 for g in got):
        raise Violation("crowding", "negative", "front %r -> %r" % (rows, got))
    if any(g != math.inf and g > m * (1 + 1e-12) for g in got):
        raise Violation("crowding", "finite-above-m", "front %r -> %r (m=%d)" % (rows, got, m))
    for k in range(m):
        lo, hi = min(r[k] for r in rows), max(r[k] for r in rows)
        if not any(r[k] == lo and g == math.inf for r, g in zip(rows, got)):
            raise Violation("crowding", "min-holder-finite", "objective %d: no holder of the minimum is inf: %r -> %r" % (
                k, rows, got))
        if not any(r[k] == hi and g == math.inf for r, g in zip(rows, got)):
            raise Violation("crowding", "max-holder-finite", "objective %d: no holder of the maximum is inf: %r -> %r" % (
                k, rows, got))
    interior = False
    if tiefree:
        exp = O.crowding_reference([tuple(r) for r in rows])
        for g, e in zip(got, exp):
            if (g == math.inf) != (e == math.inf) or (e != math.inf and abs(g - e) > 1e-12 * max(1.0, e)):
                raise Violation("crowding", "interior-formula", "front %r -> %r, reference %r" % (rows, got, exp))
        interior = any(e != math.inf for e in exp)
    return {"nt": tiefree and interior, "classes": [case["kind"], "tiefree" if tiefree else "ties",
                                                   "interior" if interior else "no-interior"]}


# ---------------------------------------------------------------- truncation

coordv = st.sampled_from([-2.0, -1.0, 0.0, 1.0, 2.0, 0.5, 3.0])


@st.composite
def ranked_population(draw):
    dim = draw(st.integers(1, 3))
    m = draw(st.sampled_from([1, 2, 2, 3]))
    cost_mode = draw(st.sampled_from(["grid", "layers", "layers", "plateau"]))
    plateau = [[float(draw(st.integers(0, 3))) for _ in range(m)] for _ in range(3)]
    npool = draw(st.integers(1, 12))
    pool = []
    seen = set()
    for _ in range(npool):
        mode = draw(st.sampled_from(["fresh", "first", "collide"]))
        if mode == "fresh" or not pool:
            v = [draw(coordv) for _ in range(dim)]
        else:
            v = list(pool[draw(st.integers(0, len(pool) - 1))]["v"])
            if mode == "first":
                v[0] = v[0] + draw(st.sampled_from([1.0, -1.0, 0.25]))
            else:
                i = draw(st.integers(0, dim - 1))
                v[i] = -1.0 if v[i] == -2.0 else -2.0
        if tuple(v) in seen:
            continue
        seen.add(tuple(v))
        if cost_mode == "plateau":
            # several distinct designs share exactly the same costs (an insensitive parameter, a symmetric objective)
            costs = list(plateau[draw(st.integers(0, 2))])
        elif cost_mode == "layers" and m >= 2:   # antichains a + b = 6 stacked in layers: fronts with many members
            a = draw(st.integers(0, 12)) / 2.0
            layer = draw(st.integers(0, 2))
            costs = [a + layer, 6.0 - a + layer] + [float(layer)] * (m - 2)
        else:
            costs = [float(draw(st.integers(0, 4))) for _ in range(m)]
            if draw(st.booleans()):
                costs = [c + draw(st.integers(0, 99)) / 100.0 for c in costs]
        pool.append({"v": v, "c": costs, "mk": draw(st.sampled_from([True, True, True, False]))})
    dup = draw(st.booleans())
    if dup:
        seq = draw(st.lists(st.integers(0, len(pool) - 1), min_size=1, max_size=14))
    else:
        seq = list(draw(st.permutations(list(range(len(pool))))))
    k = draw(st.one_of(st.integers(1, max(1, len(set(seq)) - 1)), st.integers(1, len(seq) + 3)))
    # a second generation on the same objects: some members are moved IN PLACE (coordinate by coordinate, as the swarm
    # operators and the clip step do) onto the design of another member, then the population is ranked and cut again
    moves = draw(st.lists(st.tuples(st.integers(0, len(seq) - 1), st.integers(0, len(seq) - 1)), max_size=3))
    return {"pool": pool, "seq": seq, "k": k, "moves": [list(mv) for mv in moves], "np": draw(st.booleans())}


def _verify_truncations(case, pool, seq, pop, sel, classes, tag):
    from artap.operators import nondominated_truncate
    nt = False
    with guard("truncate"):
        sel.fast_nondominated_sorting(pop)
        fronts_ = {id(p): p.features.get("front_number") for p in pop}
        crowd = {id(p): p.features.get("crowding_distance") for p in pop}
    if any(v is None for v in fronts_.values()) or any(v is None for v in crowd.values()):
        raise Violation("truncate", "unranked-after-sort" + tag, "after non-dominated sorting %d of %d members carry no "
                        "front number / crowding distance" % (sum(1 for p in pop if fronts_[id(p)] is None
                                                                  or crowd[id(p)] is None), len(pop)))
    design = {id(p): seq[j] for j, p in enumerate(pop)}
    distinct = sorted(set(seq))
    front_of = {}
    for j, p in enumerate(pop):
        front_of[seq[j]] = fronts_[id(p)]     # same costs => same front for all representatives
    # every truncation size is tried on the same ranked population (the drawn k first, so that it shrinks well)
    for k in [case["k"]] + [x for x in range(1, len(seq) + 3) if x != case["k"]]:
        with guard("truncate"):
            res = nondominated_truncate(list(pop), k)
        if any(id(r) not in design for r in res):
            raise Violation("truncate", "foreign-object", "truncate returned an object that was not in the population")
        kept = [design[id(r)] for r in res]
        if len(res) != min(k, len(distinct)):
            raise Violation("truncate", "size" + tag, "k=%d, %d distinct designs (of %d members) -> %d returned; designs %r" % (
                k, len(distinct), len(seq), len(res), [pool[i]["v"] for i in seq]))
        if len(set(kept)) != len(kept):
            raise Violation("truncate", "design-twice" + tag, "a design was returned twice: %r" % (
                [pool[i]["v"] for i in kept],))
        discarded = [d for d in distinct if d not in kept]
        cut = None
        if discarded:
            worst_kept = max(front_of[d] for d in kept)
            best_disc = min(front_of[d] for d in discarded)
            if worst_kept > best_disc:
                raise Violation("truncate", "rank-order", "kept a design of front %d while discarding one of front %d "
                                "(k=%d, fronts %r, crowding %r)" % (worst_kept, best_disc, k, [front_of[i] for i in seq],
                                                                    [crowd[id(p)] for p in pop]))
            for d in discarded:
                for s_ in kept:
                    if O.verdict(pool[d]["c"] + [pool[d]["mk"]], pool[s_]["c"] + [pool[s_]["mk"]]) == 1:
                        raise Violation("truncate", "survivor-dominated", "survivor %r is dominated by discarded %r" % (
                            pool[s_], pool[d]))
            if worst_kept == best_disc:
                cut = worst_kept
            if len(distinct) == len(seq) and worst_kept == best_disc:
                ck = [crowd[id(r)] for r in res if fronts_[id(r)] == cut]
                cd = [crowd[id(p)] for p in pop if fronts_[id(p)] == cut and all(p is not r for r in res)]
                if ck and cd and max(cd) > min(ck):
                    raise Violation("truncate", "crowding-order", "in the cut front %d a discarded member has crowding %r "
                                    "> kept member %r (k=%d)" % (cut, max(cd), min(ck), k))
            else:
                classes.add("cut-at-front-boundary")
        cut_size = sum(1 for d in distinct if cut is not None and front_of[d] == cut)
        if cut is not None and cut_size >= 3:
            nt = True
        classes.add("cuts-front" if cut else "no-cut")
    return nt


def check_truncate(case):
    from artap.individual import Individual
    from artap.operators import TournamentSelector, nondominated_truncate
    pool, seq = case["pool"], case["seq"]
    with guard("truncate"):
        sel = TournamentSelector(params([(0.0, 1.0)] * len(pool[0]["v"])))
        pop = []
        for i in seq:
            ind = Individual(list(pool[i]["v"]))
            ind.costs_signed = npcosts(list(pool[i]["c"]) + [pool[i]["mk"]], case.get("np"))
            pop.append(ind)
    nt = False
    classes = set()
    seq = list(seq)
    for generation in (0, 1):
        if generation == 1:
            moves = [mv for mv in case.get("moves") or [] if seq[mv[0]] != seq[mv[1]]]
            if not moves:
                break
            with guard("truncate"):
                for a, b in moves:
                    for t_ in range(len(pop[a].vector)):
                        pop[a].vector[t_] = pool[seq[b]]["v"][t_]
                    pop[a].costs_signed = npcosts(list(pool[seq[b]]["c"]) + [pool[seq[b]]["mk"]], case.get("np"))
                    seq[a] = seq[b]
            classes.add("moved-in-place")
        nt = _verify_truncations(case, pool, seq, pop, sel, classes, "" if generation == 0 else ":after-move") or nt
    distinct = sorted(set(seq))
    classes.add("dups" if len(distinct) < len(seq) else "distinct")
    return {"nt": nt, "classes": sorted(classes)}


# ---------------------------------------------------------------- tournament

@st.composite
def tournament_cases(draw):
    n = draw(st.integers(1, 10))
    m = draw(st.integers(1, 3))
    members = []
    for _ in range(n):
        members.append({"front": draw(st.integers(1, 3)),
                        "c": [float(draw(st.integers(0, 3))) for _ in range(m)],
                        "mk": draw(st.sampled_from([True, True, False])),
                        # ranks/crowding are given, not recomputed: PSOGA runs tournaments on un-ranked swarms
                        "crowd": draw(st.sampled_from([0.0, 0.5, 1.0, 2.0, float("inf")]))})
    return {"members": members, "seed": draw(st.integers(0, 2 ** 31)), "calls": draw(st.sampled_from([1, 2, 4, 8]))}


def check_tournament(case):
    from artap.individual import Individual
    from artap.operators import TournamentSelector
    import artap.operators as ops
    mem = case["members"]
    with guard("tournament"):
        sel = TournamentSelector(params([(0.0, 1.0)]))
        pop = []
        for j, r in enumerate(mem):
            ind = Individual([float(j)])
            ind.costs_signed = list(r["c"]) + [r["mk"]]
            ind.features["front_number"] = r["front"]
            ind.features["crowding_distance"] = r.get("crowd", 0.0)
            pop.append(ind)
    real_sample = random.sample
    random.seed(case["seed"])
    out = None
    # a selector serves a whole run: several draws from the same object, each judged on its own
    for call in range(case.get("calls", 1)):
        samples = []

        def rec(popn, kk, *a, **kw):
            got = real_sample(popn, kk, *a, **kw)
            samples.append(list(got))
            return got
        with Patched((ops.random, "sample", rec)):
            with guard("tournament"):
                w = sel.select(list(pop))
        res = _judge_tournament(pop, samples, w, ":call%s" % ("1" if call == 0 else "N"))
        if out is None or res["nt"]:
            out = res
    if case.get("calls", 1) > 1:
        out["classes"] = out["classes"] + ["repeated-calls"]
    return out


def _judge_tournament(pop, samples, w, tag):
    if all(w is not p for p in pop):
        raise Violation("tournament", "foreign-winner", "select returned an object that is not a member")
    if len(pop) == 1:
        return {"nt": False, "classes": ["n1"]}

    def loses(a, b):   # a must not win against b
        if a.features["front_number"] > b.features["front_number"]:
            return True
        if a.features["front_number"] == b.features["front_number"] and O.verdict(b.costs_signed, a.costs_signed) == 1:
            return True
        return False
    two = [s for s in samples if len(s) == 2]
    if len(two) == 1 and len(samples) == 1:
        a, b = two[0]
        other = b if w is a else a
        if w is not a and w is not b:
            raise Violation("tournament", "winner-not-candidate" + tag, "winner is neither of the two drawn candidates")
        if loses(w, other):
            raise Violation("tournament", "worse-candidate-won" + tag, "candidates front/costs %r vs %r: winner %r" % (
                (a.features["front_number"], a.costs_signed), (b.features["front_number"], b.costs_signed),
                (w.features["front_number"], w.costs_signed)))
        nt = a.features["front_number"] != b.features["front_number"] or O.verdict(a.costs_signed, b.costs_signed) != 0
        return {"nt": nt, "classes": ["sampled-pair", "decisive" if nt else "random-choice"]}
    # black-box consequence: the winner must not lose against every other member
    if all(loses(w, p) for p in pop if p is not w):
        raise Violation("tournament", "winner-loses-to-all" + tag, "winner %r loses against every other member" % (
            (w.features["front_number"], w.costs_signed),))
    return {"nt": False, "classes": ["blackbox"]}


CLAUSES = [
    Clause("crowding", fronts(), check_crowding, quick=2000, thorough=20000, quick_shards=2),
    Clause("truncate", ranked_population(), check_truncate, quick=2000, thorough=20000, quick_shards=4),
    Clause("tournament", tournament_cases(), check_tournament, quick=2000, thorough=20000, quick_shards=2),
]
