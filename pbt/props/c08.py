"""C08 - variation, sampling and search never leave the declared parameter box."""
import math
import random
from hypothesis import strategies as st

from ..core import Clause, Enum, Violation, guard, ulp
from ..harness import make_problem, dispose, seed_all, Patched, pname, NAME_STYLES

PROPERTY = "C08"
LEVEL = "exploration"
RULE = ("operators: boxes with lower bound in +-[0,1e6] and width log-uniform in [1e-9,1e9]; parents built as "
        "lb+t*width (t in {0,1,u}) with the second parent equal, adjacent (nextafter) or 1e-16*width away; "
        "probabilities in [0,1] incl. both ends, distribution index 0..100, iteration 0..max, perturbation 0..1e3; "
        "generators: Random (with/without declared precision), LHS, Halton, Uniform grid, FullFactor(+-centre), "
        "Plackett-Burman, Box-Behnken; runs: NSGAII/EpsMOEA/OMOPSO/SMPSO/PSOGA with N=2..8, G=1..4, n=1..4, m=1..3, "
        "optional transient failures, every vector the objective receives is checked. Non-trivial = a parent on a "
        "bound or (almost) coincident parents / a generator case with n>=2 / a run with >= 2 generations")
ASSUMPTIONS = ["zero-width and infinite boxes are outside the domain",
               "position tolerance for generators and runs: 1e-12 + 4 ulp(max|bound|) (or precision/2 + 4 ulp when a "
               "precision is declared); operator children must be inside the box exactly",
               "real-valued parameters only (no 'integer' parameter type)"]


@st.composite
def box(draw, min_width=1e-9):
    lb_mag = draw(st.one_of(st.just(0.0), st.floats(1e-3, 1e6), st.sampled_from([1.0, 1e6, 5.0])))
    lb = lb_mag * draw(st.sampled_from([1.0, -1.0]))
    e = draw(st.floats(math.log10(min_width), 9.0))
    width = 10.0 ** e
    if draw(st.integers(0, 3)) == 0:
        width = draw(st.sampled_from([1.0, 10.0, 2.0, 1e-3]))
        width = max(width, min_width)
    ub = lb + width
    if not (ub > lb):
        ub = math.nextafter(lb, math.inf)
    return [lb, ub]


def place(lb, ub, t):
    return min(ub, max(lb, lb + t * (ub - lb)))


tpos = st.one_of(st.sampled_from([0.0, 1.0, 0.5]), st.floats(0.0, 1.0),
                 # a hair inside the bounds: where a missing clip shows only through rounding
                 st.sampled_from([1e-16, 1e-12, 1e-9, 1.0 - 1e-16, 1.0 - 1e-12, 1.0 - 1e-9]))


@st.composite
def op_cases(draw):
    n = draw(st.integers(1, 5))
    boxes = [draw(box()) for _ in range(n)]
    edge = draw(st.integers(0, 2)) == 0      # parents sitting on the bounds: where only rounding can push a child out
    p1 = [place(b[0], b[1], draw(st.sampled_from([0.0, 1.0, 1e-16, 1.0 - 1e-16, 1e-12, 1.0 - 1e-12])) if edge
                else draw(tpos)) for b in boxes]
    p2 = []
    rel = []
    for i, b in enumerate(boxes):
        kind = draw(st.sampled_from(["adjacent", "adjacent", "adjacent3", "tiny", "free"] if edge else
                                    ["free", "equal", "adjacent", "tiny", "adjacent3"]))
        if kind == "adjacent3":
            v = p1[i]
            for _ in range(3):
                v = math.nextafter(v, b[1] if p1[i] < b[1] else b[0])
        elif kind == "free":
            v = place(b[0], b[1], draw(tpos))
        elif kind == "equal":
            v = p1[i]
        elif kind == "adjacent":
            v = math.nextafter(p1[i], b[1] if p1[i] < b[1] else b[0])
        else:
            v = place(b[0], b[1], (p1[i] - b[0]) / (b[1] - b[0]) + 1e-16)
            v = min(b[1], max(b[0], p1[i] + 1e-16 * (b[1] - b[0])))
        p2.append(v)
        rel.append(kind)
    prob = draw(st.one_of(st.sampled_from([0.0, 1.0, 1.0]), st.floats(0.0, 1.0)))
    eta = draw(st.one_of(st.sampled_from([0, 1, 15, 20, 100]), st.floats(0.0, 100.0)))
    max_it = draw(st.integers(1, 50))
    it = draw(st.one_of(st.sampled_from([0]), st.just(max_it), st.integers(0, max_it)))
    pert = draw(st.one_of(st.sampled_from([0.0, 0.5, 1.0, 5.0]), st.floats(0.0, 1e3)))
    return {"op": draw(st.sampled_from(["sbx", "pm", "uniform", "nonuniform"])), "boxes": boxes, "p1": p1, "p2": p2,
            "rel": rel, "prob": prob, "eta": eta, "max_it": max_it, "it": it, "pert": pert,
            "seed": draw(st.integers(0, 2 ** 31))}


def _check_child(clause, op, child, boxes, ctx):
    import numpy as np
    if not isinstance(child, (list, tuple)) or len(child) != len(boxes):
        raise Violation(clause, "%s:shape" % op, "child %r for %d parameters (%s)" % (child, len(boxes), ctx))
    for x, (lb, ub) in zip(child, boxes):
        if isinstance(x, bool) or not isinstance(x, (int, float, np.floating, np.integer)):
            raise Violation(clause, "%s:not-real" % op, "coordinate %r of type %s (%s)" % (x, type(x).__name__, ctx))
        if x != x:
            raise Violation(clause, "%s:nan" % op, "NaN coordinate (%s)" % ctx)
        if not (lb <= x <= ub):
            raise Violation(clause, "%s:out-of-box" % op, "coordinate %r outside [%r, %r] (%s)" % (x, lb, ub, ctx))


def check_operator(case):
    from artap.operators import SimulatedBinaryCrossover, PmMutator, UniformMutator, NonUniformMutation
    boxes = case["boxes"]
    ps = [{"name": "x%d" % i, "bounds": list(b)} for i, b in enumerate(boxes)]
    op = case["op"]
    ctx = "op=%s boxes=%r p1=%r p2=%r prob=%r eta=%r it=%r/%r pert=%r seed=%r" % (
        op, boxes, case["p1"], case["p2"], case["prob"], case["eta"], case["it"], case["max_it"], case["pert"],
        case["seed"])
    random.seed(case["seed"])
    for rep in range(10 if op in ("sbx", "pm") else 3):
        with guard("operators"):
            if op == "sbx":
                o = SimulatedBinaryCrossover(ps, case["prob"], case["eta"])
                c1, c2 = o.cross(list(case["p1"]), list(case["p2"]))
                kids = [c1, c2]
            elif op == "pm":
                kids = [PmMutator(ps, case["prob"], case["eta"]).mutate(list(case["p1"]))]
            elif op == "uniform":
                kids = [UniformMutator(ps, case["prob"], case["pert"]).mutate(list(case["p1"]))]
            else:
                kids = [NonUniformMutation(ps, case["prob"], case["max_it"], case["pert"]).mutate(
                    list(case["p1"]), case["it"])]
        for k in kids:
            _check_child("operators", op, k, boxes, ctx)
    on_bound = any(x in b for x, b in zip(case["p1"], boxes)) or any(x in b for x, b in zip(case["p2"], boxes))
    near = op == "sbx" and any(r in ("adjacent", "adjacent3", "tiny", "equal") for r in case["rel"])
    return {"nt": on_bound or near, "classes": [op, "on-bound" if on_bound else "interior"] + (
        ["coincident-parents"] if near else [])}


def sbx_lattice(tier):
    """parents on / a few ulps inside a bound and a few ulps apart: where SBX leaves the box only through rounding"""
    boxes = [[0.0, 1.0], [1.0, 11.0], [-5.0, -4.0], [1e6, 1e6 + 1e-3]] + ([[-1e-3, 1e-3], [3.0, 1e9]] if tier != "quick" else [])
    seeds = range(6 if tier == "quick" else 24)
    for b in boxes:
        for side in (0, 1):
            inward = b[1 - side]
            for k in range(3):
                a = b[side]
                for _ in range(k):
                    a = math.nextafter(a, inward)
                for j in (1, 2, 3, 40):
                    c = a
                    for _ in range(j):
                        c = math.nextafter(c, inward)
                    for eta in (0, 1, 15, 20):
                        for sd in seeds:
                            for swap in (False, True):
                                yield {"op": "sbx", "boxes": [b], "p1": [c if swap else a], "p2": [a if swap else c],
                                       "rel": ["adjacent"], "prob": 1.0, "eta": eta, "max_it": 1, "it": 0, "pert": 0.0,
                                       "seed": sd}


# ---------------------------------------------------------------- generators

@st.composite
def gen_cases(draw):
    kind = draw(st.sampled_from(["random", "random-precision", "lhs", "halton", "uniform", "fullfact", "fullfact-c",
                                 "pb", "bb"]))
    if kind == "bb":
        n = draw(st.integers(3, 6))
    elif kind in ("uniform", "fullfact", "fullfact-c"):
        n = draw(st.integers(1, 4))
    else:
        n = draw(st.integers(1, 6))
    boxes = [draw(box()) for _ in range(n)]
    prec = None
    if kind == "random-precision":
        # decimal and non-decimal grids (0.25, 0.2, 0.05 ...): the declared precision is a step, not a digit count
        prec = [draw(st.sampled_from([1e-1, 1e-2, 1e-3, 0.5, 1.0, 1e-6, 0.25, 0.2, 0.05, 0.125, 2.0]))
                for _ in range(n)]
        if n >= 2 and draw(st.booleans()):
            # heterogeneous declarations: only some parameters declare a precision (the others keep the default), and
            # the undeclared ones get boxes that sit on no coarse grid
            for j in range(n):
                if j != 0 and draw(st.booleans()):
                    prec[j] = None
                    lo = draw(st.sampled_from([0.3, -0.77, 1.0 / 3.0, 17.23]))
                    boxes[j] = [lo, lo + draw(st.sampled_from([0.2, 0.37, 0.05]))]
    return {"kind": kind, "boxes": boxes, "prec": prec, "number": draw(st.integers(1, 12)),
            "k": draw(st.integers(2, 4)), "seed": draw(st.integers(0, 2 ** 31)), "names": draw(st.sampled_from(NAME_STYLES))}


def make_generator(kind, ps, number, k):
    import artap.operators as ops
    if kind in ("random", "random-precision"):
        g = ops.RandomGenerator(ps)
        g.init(number)
    elif kind == "lhs":
        g = ops.LHSGenerator(ps)
        g.init(number)
    elif kind == "halton":
        g = ops.HaltonGenerator(ps)
        g.init(number)
    elif kind == "uniform":
        g = ops.UniformGenerator(ps)
        g.init(k)
    elif kind in ("fullfact", "fullfact-c"):
        g = ops.FullFactorGenerator(ps)
        g.init(kind == "fullfact-c")
    elif kind == "pb":
        g = ops.PlackettBurmanGenerator(ps)
    else:
        g = ops.BoxBehnkenGenerator(ps)
    return g


def SeededRS(case_seed):
    """numpy.random.RandomState() without arguments is unseeded in artap.doe.lhs; give it the case seed (a subclass,
    so that isinstance checks elsewhere keep working)."""
    import numpy as np
    real = np.random.RandomState

    class _Seeded(real):
        def __init__(self, seed=None, *a, **kw):
            super().__init__(case_seed % (2 ** 32) if seed is None else seed, *a, **kw)
    return _Seeded


def check_generator(case):
    import numpy as np
    kind, boxes = case["kind"], case["boxes"]
    ps = []
    for i, b in enumerate(boxes):
        p = {"name": pname(i, case.get("names", "x")), "bounds": list(b)}
        if case["prec"] and case["prec"][i]:
            p["precision"] = case["prec"][i]
        ps.append(p)
    seed_all(case["seed"])
    import artap.operators  # noqa: F401  (import before patching numpy.random)
    with Patched((np.random, "RandomState", SeededRS(case["seed"]))):
        with guard("generators"):
            g = make_generator(kind, ps, case["number"], case["k"])
            vs = g.generate()
    vs = [list(v) for v in vs]
    if not vs:
        raise Violation("generators", "%s:empty" % kind, "no designs generated for %r" % (boxes,))
    for v in vs:
        if len(v) != len(boxes):
            raise Violation("generators", "%s:shape" % kind, "design %r for %d parameters" % (v, len(boxes)))
        for j, (x, (lb, ub)) in enumerate(zip(v, boxes)):
            x = float(x)
            tol = 1e-12 + 4 * ulp(max(abs(lb), abs(ub)))
            if case["prec"] and case["prec"][j]:
                tol = case["prec"][j] / 2 + 4 * ulp(max(abs(lb), abs(ub), case["prec"][j]))
            if x != x or not (lb - tol <= x <= ub + tol):
                raise Violation("generators", "%s:out-of-box" % kind, "coordinate %r outside [%r, %r] (tol %g), box %r" % (
                    x, lb, ub, tol, boxes))
    return {"nt": len(boxes) >= 2, "classes": [kind]}


# ---------------------------------------------------------------- runs

@st.composite
def run_cases(draw):
    n = draw(st.integers(1, 4))
    m = draw(st.integers(1, 3))
    boxes = [draw(box(min_width=1e-3)) for _ in range(n)]
    fails = sorted(draw(st.sets(st.integers(0, 40), max_size=4)))
    if draw(st.booleans()):      # runs of consecutive failing calls: the same design fails two to four times in a row
        start = draw(st.integers(0, 30))
        fails = sorted(set(fails) | set(range(start, start + draw(st.integers(2, 4)))))
    # never five failing calls in a row (that legitimately ends the run with "To many failures")
    kept, run = [], 0
    for f_ in fails:
        run = run + 1 if kept and f_ == kept[-1] + 1 else 1
        if run <= 4:
            kept.append(f_)
        else:
            run = 0
    fails = kept
    prec = None
    if draw(st.integers(0, 3)) == 0:
        # a declared precision is a grid *inside* the box: steps coarser than a quarter of the width are a mis-declared
        # problem (the rounded start design then lies outside the box and polynomial mutation, which assumes parents
        # inside the box, produces complex numbers) and are not generated
        prec = []
        for b in boxes:
            q = draw(st.sampled_from([0.25, 0.1, 0.2, 0.05, 1e-3]))
            prec.append(q if q <= (b[1] - b[0]) / 4 else None)
        if not any(prec):
            prec = None
    collapse = draw(st.integers(0, 3)) == 0
    periodic = draw(st.integers(0, 2)) == 0
    if collapse:
        boxes = boxes[:2]
    if periodic and not collapse:
        boxes = (boxes * 4)[:4]          # many re-sampled coordinates per run
        prec = None
    if prec is not None:
        prec = prec[:len(boxes)]
        if not any(prec):
            prec = None
    return {"alg": draw(st.sampled_from(["EpsMOEA", "EpsMOEA", "NSGAII"])) if collapse else
            draw(st.sampled_from(["NSGAII", "EpsMOEA", "OMOPSO", "SMPSO", "PSOGA"])), "boxes": boxes, "m": m,
            # the objective fails on the 2nd and 3rd of every four calls: many designs fail twice in a row
            "periodic": periodic and not collapse,
            "N": 8 if (periodic and not collapse) else draw(st.integers(2, 8)),
            "G": 4 if (periodic and not collapse) else draw(st.integers(1, 4)), "seed": draw(st.integers(0, 2 ** 31)),
            "fails": fails if draw(st.booleans()) else [], "prec": prec,
            # a collapsed population: tiny N, many generations, low (valid) mutation probability, optimum in a corner
            "collapse": collapse,
            "pm": draw(st.sampled_from([0.01, 0.02, 0.05, 0.2])),
            "names": draw(st.sampled_from(NAME_STYLES)),
            # every parameter also declares an initial_value (the starting point of local optimisers); after bounds
            # were tightened it may be stale, i.e. lie outside the box: positions relative to the box, None = absent
            "init": draw(st.one_of(st.none(), st.none(), st.lists(st.sampled_from([0.5, 0.0, 1.0, -0.6, 1.4, 3.0]),
                                                                      min_size=4, max_size=4))),
            # the box is edited in place after the algorithm object was created (a study re-using one set-up): the
            # box declared when run() starts is the one that counts.  rebox = (shift in widths, scale) of the first box
            "rebox": draw(st.one_of(st.none(), st.none(), st.tuples(st.sampled_from([-3.0, -1.0, 0.0, 0.5, 2.0]),
                                                                     st.sampled_from([0.1, 0.5, 1.0, 3.0]))))}


def algorithm_class(name):
    if name == "NSGAII":
        from artap.algorithm_NSGAII import NSGAII
        return NSGAII
    if name == "EpsMOEA":
        from artap.algorithm_genetic import EpsMOEA
        return EpsMOEA
    import artap.algorithm_swarm as sw
    return getattr(sw, name)


def check_run(case):
    boxes, m = case["boxes"], case["m"]
    n = len(boxes)
    seen = []
    calls = [0]
    fails = set(case["fails"])

    def ev(ind):
        k = calls[0]
        calls[0] += 1
        seen.append(list(ind.vector))
        if (k % 4 in (1, 2)) if case.get("periodic") else (k in fails):
            raise RuntimeError("injected transient failure")
        x = [(float(v) - b[0]) / (b[1] - b[0]) for v, b in zip(ind.vector, boxes)]
        if case.get("collapse"):
            return [sum(xi for xi in x) + 0.01 * j * x[0] for j in range(m)]       # optimum in the corner of the box
        return [sum((xi - (j + 1) / (m + 1.0)) ** 2 for xi in x) + 0.1 * j * x[0] for j in range(m)]
    ps = [{"name": pname(i, case.get("names", "x")), "bounds": list(b)} for i, b in enumerate(boxes)]
    prec = case.get("prec")
    if prec:
        for p_, q_ in zip(ps, prec):
            if q_:
                p_["precision"] = q_
    if case.get("init"):
        for p_, b, t_ in zip(ps, boxes, case["init"]):
            p_["initial_value"] = b[0] + t_ * (b[1] - b[0])
    rebox = case.get("rebox")
    if rebox:
        for p_, b in zip(ps, boxes):
            w = b[1] - b[0]
            p_["bounds"] = [b[0] + rebox[0] * w, b[0] + rebox[0] * w + rebox[1] * w]
    cs = [{"name": "f%d" % j, "criteria": "minimize"} for j in range(m)]
    prob = make_problem(ps, cs, ev)
    seed_all(case["seed"])
    try:
        with guard("runs"):
            alg = algorithm_class(case["alg"])(prob)
            if rebox:
                for p_, b in zip(prob.parameters, boxes):
                    p_["bounds"] = list(b)
            alg.options["max_population_size"] = case["N"]
            alg.options["max_population_number"] = case["G"]
            if case.get("collapse"):
                alg.options["max_population_size"] = min(case["N"], 3)
                alg.options["max_population_number"] = 8 + 4 * case["G"]
                alg.options["prob_mutation"] = case.get("pm", 0.02)
            alg.run()
    finally:
        dispose(prob)
    if not seen:
        raise Violation("runs", "no-evaluations", "objective never called")
    for v in seen:
        if len(v) != n:
            raise Violation("runs", "%s:shape" % case["alg"], "objective received %r for %d parameters" % (v, n))
        for j_, (x, (lb, ub)) in enumerate(zip(v, boxes)):
            tol = 1e-12 + 4 * ulp(max(abs(lb), abs(ub)))
            if prec and prec[j_]:
                tol = prec[j_] / 2 + 4 * ulp(max(abs(lb), abs(ub), prec[j_]))
            xf = float(x)
            if isinstance(x, complex) or xf != xf or not (lb - tol <= xf <= ub + tol):
                raise Violation("runs", "%s:out-of-box" % case["alg"], "%s N=%d G=%d evaluated %r outside %r" % (
                    case["alg"], case["N"], case["G"], v, boxes))
    return {"nt": case["G"] >= 2, "classes": [case["alg"], "failures" if fails else "clean"] + (
        ["collapsed-population"] if case.get("collapse") else []) + (["periodic-failures"] if case.get("periodic") else []) + (["rebox"] if rebox else []) + (
        ["stale-initial-value"] if case.get("init") and any(t_ < 0 or t_ > 1 for t_ in case["init"][:n]) else [])}


CLAUSES = [
    Clause("operators", op_cases(), check_operator, quick=12000, thorough=40000, quick_shards=4),
    Clause("generators", gen_cases(), check_generator, quick=1500, thorough=10000, quick_shards=2),
    Clause("runs", run_cases(), check_run, quick=180, thorough=900, quick_shards=4),
]
ENUMS = [
    Enum("sbx-at-bounds", sbx_lattice, check_operator, tiers=("quick", "thorough"), chunk=600,
         exhaustive_note="SBX on every parent pair {bound + 0..2 ulps} x {1,2,3,40 ulps apart} x both orders x eta in "
                         "{0,1,15,20} x 6 (thorough 24) RNG seeds x 10 repetitions, 4 (6) boxes"),
]
