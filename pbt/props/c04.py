"""C04 - the archive holds exactly the non-dominated set of everything ever offered (model-based, histories)."""
import math
from hypothesis import strategies as st

from ..core import Clause, Violation, guard
from .. import oracles as O
from ..harness import npcosts

PROPERTY = "C04"
LEVEL = "exploration"
RULE = ("histories of up to 30 (thorough 60) add operations against a model (the set of offered signed-cost tuples): "
        "grid vectors {0..4}^m * scale with markers, re-offers of earlier vectors, separated floats; comparator Pareto "
        "or epsilon (drawn list); invariant after every step: archive cost multiset == non-dominated subset of the "
        "model with multiplicity 1, add() returned True iff the offered object is now a member, members are offered "
        "objects, len/iter/index/size agree; at the end a replay in a drawn permutation (order independence) and a "
        "truncate over drawn feature values. Non-trivial = a step that evicts >= 2 non-adjacent members, a duplicate "
        "offer, or a newcomer dominated only by a member that is not the first")
ASSUMPTIONS = ["epsilon comparators only see separated values (grid multiples / rounded floats), see C01",
               "markers non-negative", "truncate sizes >= 1 (callers pass the population size)"]

MARK = st.sampled_from([False, False, False, True, 0.5])


@st.composite
def history(draw, max_steps=30):
    m = draw(st.integers(1, 4))
    cmpk = draw(st.sampled_from(["pareto", "pareto", "eps"]))
    eps = None
    if cmpk == "eps":
        eps = draw(st.one_of(st.lists(st.sampled_from([0.1, 0.01, 1.0, 2.0, 1e-3, 5.0]), min_size=1, max_size=m + 1),
                             st.sampled_from([0.1, 0.5])))
    scale = draw(st.sampled_from([1.0, 1.0, 0.5, 1e-3, 1e3]))
    width = draw(st.sampled_from([1, 2, 4]))
    flavour = draw(st.sampled_from(["grid", "grid", "front", "front", "floats"] + (["nudged"] if cmpk == "pareto" else [])))
    mk_mode = draw(st.sampled_from(["same", "same", "mixed"]))
    base = draw(MARK)
    nsteps = draw(st.integers(1, max_steps))
    ops = []
    for s in range(nsteps):
        if ops and draw(st.integers(0, 5)) == 0:
            ops.append({"re": draw(st.integers(0, len(ops) - 1))})
            continue
        if flavour == "grid" or (flavour == "front" and m < 2):
            v = [draw(st.integers(0, width)) * scale for _ in range(m)]
        elif flavour == "nudged":   # objective values a few (or a few thousand) ulps apart: different floats all the same
            v = [math.nextafter(draw(st.integers(1, 1 + width)) * scale, math.inf,
                                steps=draw(st.sampled_from([0, 0, 1, 2, 3, 64, 4000]))) for _ in range(m)]
        elif flavour == "front":   # a long antichain a + b = 8 with occasional dominators / dominated points
            a = draw(st.integers(0, 8))
            b = 8 - a + draw(st.sampled_from([0, 0, 0, 1, -1, -3]))
            v = [a * scale, b * scale] + [0.0] * (m - 2)
        else:
            v = [round(draw(st.floats(-100, 100, allow_nan=False)), 2) for _ in range(m)]
        mk = base if mk_mode == "same" else draw(MARK)
        ops.append({"v": v + [mk]})
    perm = draw(st.permutations(list(range(nsteps))))
    trunc = None
    if draw(st.booleans()):
        feats = [draw(st.one_of(st.integers(0, 3).map(float), st.floats(0, 10, allow_nan=False),
                                st.just(float("inf")))) for _ in range(nsteps)]
        trunc = {"size": draw(st.one_of(st.integers(1, 3), st.integers(1, nsteps + 2))), "feats": feats, "larger": draw(st.booleans()),
                 "default_direction": draw(st.booleans())}
        if draw(st.booleans()):
            # step-wise pruning: the survivors are re-scored (as crowding distances are) and cut again by the same
            # feature, optionally after an offer that the archive rejects
            trunc["again"] = {"size": draw(st.integers(1, 3)), "feats": [draw(st.integers(0, 9)).__float__()
                                                                         for _ in range(nsteps)],
                              "reoffer": draw(st.booleans())}
    return {"cmp": cmpk, "eps": eps, "ops": ops, "perm": list(perm), "trunc": trunc,
            # design vectors: all different, or all equal (repeated / noisy evaluations of one design: members must be
            # told apart by identity, never by design-point equality)
            "same_vector": draw(st.booleans()), "np": draw(st.booleans())}


def _mk_cmp(case):
    from artap.operators import ParetoDominance, EpsilonDominance
    if case["cmp"] == "pareto":
        return ParetoDominance()
    e = case["eps"]
    return EpsilonDominance(list(e) if isinstance(e, list) else e)


def _resolve(ops):
    out = []
    for op in ops:
        if "re" in op:
            out.append(list(out[op["re"] % len(out)]))
        else:
            out.append(list(op["v"]))
    return out


def check_history(case):
    from artap.archive import Archive
    from artap.individual import Individual
    vectors = _resolve(case["ops"])
    with guard("archive"):
        arch = Archive(dominance=_mk_cmp(case))
    offered = []
    objs = []
    nt = False
    classes = set()
    for step, v in enumerate(vectors):
        with guard("archive"):
            content = [tuple(o.costs_signed) for o in arch]
        tv = tuple(v)
        evict = [i for i, c in enumerate(content) if O.verdict(tv, c) == 1]
        domby = [i for i, c in enumerate(content) if O.verdict(c, tv) == 1]
        if len(evict) >= 2 and evict[-1] - evict[0] >= len(evict):
            nt = True
            classes.add("evicts-nonadjacent")
        if tv in offered:
            nt = True
            classes.add("duplicate-offer")
        if domby and domby[0] > 0:
            nt = True
            classes.add("dominated-by-late-member")
        with guard("archive"):
            ind = Individual([0.5] if case.get("same_vector") else [float(step)])
            ind.costs_signed = npcosts(v, case.get("np"))
            ret = arch.add(ind)
        offered.append(tv)
        objs.append(ind)
        with guard("archive"):
            members = list(arch)
            ln, sz = len(arch), arch.size()
            indexed = [arch[i] for i in range(ln)]
        if ln != len(members) or sz != ln or any(a is not b for a, b in zip(members, indexed)):
            raise Violation("archive", "container-protocol", "len=%r size=%r iteration=%d items" % (ln, sz, len(members)))
        if any(all(mem is not o for o in objs) for mem in members):
            raise Violation("archive", "foreign-member", "archive holds an object that was never offered")
        got = sorted(tuple(o.costs_signed) for o in members)
        exp = sorted(O.nondominated_set(offered))
        if got != exp:
            gs = set(got)
            if len(gs) != len(got):
                b = "duplicate-member"
            elif gs - set(exp):
                b = "dominated-member-kept"
            else:
                b = "nondominated-member-lost"
            raise Violation("archive", b, "after offering %r (step %d, %s) archive = %r, non-dominated set = %r" % (
                vectors[:step + 1], step, case["cmp"] + repr(case["eps"]), got, exp))
        inside = any(mem is ind for mem in members)
        if ret is not True and ret is not False:
            raise Violation("archive", "add-return-type", "add returned %r" % (ret,))
        if ret != inside:
            raise Violation("archive", "add-return-wrong", "add(%r) returned %r but member=%r (history %r)" % (
                v, ret, inside, vectors[:step + 1]))
    # order independence
    with guard("archive"):
        arch2 = Archive(dominance=_mk_cmp(case))
        for i in case["perm"]:
            if i < len(vectors):
                ind = Individual([0.0])
                ind.costs_signed = npcosts(vectors[i], case.get("np"))
                arch2.add(ind)
    a1 = sorted(tuple(o.costs_signed) for o in arch)
    a2 = sorted(tuple(o.costs_signed) for o in arch2)
    if a1 != a2:
        raise Violation("archive", "order-dependent", "offers %r: content %r, in order %r: %r" % (
            vectors, a1, case["perm"], a2))
    # merging into another archive (+=, extend) copies the members; afterwards the two archives are independent
    with guard("archive"):
        b2 = Archive(dominance=_mk_cmp(case))
        b2 += arch
        b3 = Archive(dominance=_mk_cmp(case))
        b3.extend(list(arch))
        snap2 = sorted(tuple(o.costs_signed) for o in b2)
    if snap2 != a1 or sorted(tuple(o.costs_signed) for o in b3) != a1:
        raise Violation("archive", "merge-content", "`empty += archive` gave %r, source holds %r" % (snap2, a1))
    # truncate
    t = case["trunc"]
    if t is not None:
        prev = list(arch)
        for k, o in enumerate(prev):
            o.features["f"] = t["feats"][k % len(t["feats"])]
        with guard("truncate"):
            if t["larger"] and t.get("default_direction"):
                arch.truncate(t["size"], "f")        # as the swarm algorithms call it: largest values are kept
            else:
                arch.truncate(t["size"], "f", larger_preferred=t["larger"])
            after = list(arch)
        if any(all(a is not p for p in prev) for a in after) or len(set(map(id, after))) != len(after):
            raise Violation("truncate", "truncate-foreign", "truncate produced members that were not in the archive")
        if len(after) != min(t["size"], len(prev)):
            raise Violation("truncate", "truncate-size", "truncate(%d) of %d members left %d" % (
                t["size"], len(prev), len(after)))
        vals = sorted((p.features["f"] for p in prev), reverse=t["larger"])[:t["size"]]
        gotv = sorted((a.features["f"] for a in after), reverse=t["larger"])
        if gotv != vals:
            raise Violation("truncate", "truncate-wrong-members", "features %r, size %d, larger=%r kept %r expected %r" % (
                [p.features["f"] for p in prev], t["size"], t["larger"], gotv, vals))
        if len(prev) > t["size"]:
            classes.add("truncate-cuts")
        ag = t.get("again")
        if ag:
            prev = list(arch)
            for k, o in enumerate(prev):
                o.features["f"] = ag["feats"][k % len(ag["feats"])]
            with guard("truncate"):
                if ag["reoffer"] and prev:
                    dup = Individual([-2.0])
                    dup.costs_signed = list(prev[0].costs_signed)
                    if arch.add(dup):
                        raise Violation("truncate", "duplicate-accepted-after-truncate", "a copy of a member was accepted")
                arch.truncate(ag["size"], "f", larger_preferred=t["larger"])
                after = list(arch)
            vals = sorted((p.features["f"] for p in prev), reverse=t["larger"])[:ag["size"]]
            gotv = sorted((a.features["f"] for a in after), reverse=t["larger"])
            if gotv != vals or any(all(a is not p for p in prev) for a in after):
                raise Violation("truncate", "second-truncate-wrong-members", "re-scored features %r, size %d, larger=%r "
                                "kept %r expected %r" % ([p.features["f"] for p in prev], ag["size"], t["larger"], gotv, vals))
            if len(prev) > ag["size"]:
                classes.add("second-truncate-cuts")
    # (last, because it empties the source archive)
    with guard("archive"):
        m_ = len(vectors[0]) - 1
        killer = Individual([-1.0])
        killer.costs_signed = [-1e9] * m_ + [min((v[-1] for v in vectors), key=lambda x: (x != 0, abs(x)))]
        arch.add(killer)            # dominates everything that was offered
        after2 = sorted(tuple(o.costs_signed) for o in b2)
        arch.remove(killer)
    if after2 != snap2:
        raise Violation("archive", "merge-aliased", "an archive filled by `+=` from another archive changed (%r -> %r) when "
                        "something was added to the source afterwards" % (snap2, after2))
    classes.add(case["cmp"])
    if any(len({round(v[j], 9) for v in vectors}) < len({v[j] for v in vectors}) for j in range(len(vectors[0]) - 1)):
        classes.add("values-few-ulps-apart")
    return {"nt": nt, "classes": sorted(classes)}


def simplify(case):
    """resolve back-references, then drop one offer at a time, the truncate, the permutation"""
    vs = _resolve(case["ops"])
    plain = [{"v": v} for v in vs]
    if any("re" in op for op in case["ops"]):
        yield dict(case, ops=plain)
    n = len(vs)
    for i in range(n):
        keep = [k for k in range(n) if k != i]
        if not keep:
            continue
        remap = {k: j for j, k in enumerate(keep)}
        t = case["trunc"]
        yield dict(case, ops=[plain[k] for k in keep], perm=[remap[k] for k in case["perm"] if k in remap],
                   trunc=None if t is None else dict(t, feats=t["feats"][:len(keep)] or [0.0]))
    if case["trunc"] is not None:
        yield dict(case, trunc=None)
    if case["perm"] != list(range(n)):
        yield dict(case, perm=list(range(n)))
    if case.get("same_vector"):
        yield dict(case, same_vector=False)


def decode_bytes(fdp):
    """atheris decoder: every offer is m+1 bytes (grid coordinates 0..8 and a marker), so libFuzzer's byte mutations
    (insert / copy / cross-over) add, repeat and reorder offers"""
    head = fdp.ConsumeIntInRange(0, 255)
    m = 1 + head % 4
    cmpk = "eps" if (head >> 2) % 3 == 2 else "pareto"
    eps = [[0.1], [1.0, 2.0], [0.5], [0.01, 5.0, 1.0]][(head >> 4) % 4] if cmpk == "eps" else None
    scale = [1.0, 0.5, 1e-3, 1e3][(head >> 6) % 4]
    ops = []
    while fdp.remaining_bytes() >= m + 1 and len(ops) < 64:
        v = [(fdp.ConsumeIntInRange(0, 255) % 9) * scale for _ in range(m)]
        mk = [False, False, False, False, False, True, True, 0.5][fdp.ConsumeIntInRange(0, 255) % 8]
        ops.append({"v": v + [mk]})
    if not ops:
        return None
    n = len(ops)
    return {"cmp": cmpk, "eps": eps, "ops": ops, "perm": list(range(n - 1, -1, -1)), "trunc": None,
            "same_vector": bool(head & 1)}


FUZZ_DECODERS = {"archive": decode_bytes}
FUZZ = ["archive"]      # clauses that get an atheris campaign in the thorough tier

CLAUSES = [
    Clause("archive", history(30), check_history, quick=1500, thorough=6000, quick_shards=4, simplify=simplify),
    Clause("archive-long", history(60), check_history, quick=200, thorough=1500, quick_shards=2, simplify=simplify),
]
