"""C01 - constrained Pareto dominance is the textbook strict partial order; epsilon comparator agrees."""
import itertools
from hypothesis import strategies as st

from ..core import Clause, Enum, Violation, guard
from .. import oracles as O
from ..harness import npcosts

PROPERTY = "C01"
LEVEL = "exploration"
RULE = ("pairs/triples of signed-cost vectors (m=1..8) with markers: coordinates from a small integer grid (ties), "
        "finite floats of magnitude 0 or 1e-100..1e100 with both signs and +-0.0; pairs constructed as independent, "
        "'q = p with a drawn subset raised/lowered', or identical; triples constructed as coordinate-wise chains or "
        "independent; epsilon lists of length 1..m+2 in [1e-9,1e6] and the scalar form. Non-trivial = equal markers "
        "and (a tied coordinate, or better and worse coordinates mixed, or a non-zero verdict with m>=2); for "
        "transitivity the premises hold. Exhaustive sub-domain: all pairs (and triples) over {0,1,2}^m x markers "
        "{False,True,0.5}, m<=3")
ASSUMPTIONS = ["markers are non-negative (False/True/0/0.5/1/2.5): the statement does not order negative markers",
               "magnitudes are capped at 1e100 and epsilons to [1e-9,1e6] so that cost/epsilon neither overflows nor "
               "underflows",
               "the epsilon clauses use separated pairs only: coordinates exactly equal or >= 1e-12 relatively apart (~10^4 ulps)"]

MARKERS = [False, True, 0, 0.0, 0.5, 1, 2.5, -0.5, -1, -2.5]   # the comparators rank markers by magnitude: +x and -x tie
grid = st.integers(-2, 3).map(float)      # negative = maximised objectives; hash(-1.0) == hash(-2.0) in CPython
mag = st.floats(1e-100, 1e100, allow_nan=False, allow_infinity=False)
wide = st.one_of(st.just(0.0), st.just(-0.0), mag, mag.map(lambda x: -x),
                 st.floats(-1e3, 1e3, allow_nan=False, allow_infinity=False).map(
                     lambda x: 0.0 if abs(x) < 1e-100 else x))   # no subnormal-range values: cost/epsilon would underflow


# a failed or rejected simulation is commonly reported as an infinite cost (the penalty value): several solutions may
# carry it in the same objective
penalty = st.one_of(grid, grid, st.just(float("inf")), st.just(float("inf")), st.just(float("-inf")))


def vec(m, flavour):
    if flavour == "penalty":
        return st.lists(penalty, min_size=m, max_size=m)
    if flavour == "grid":
        return st.lists(grid, min_size=m, max_size=m)
    if flavour == "wide":
        return st.lists(wide, min_size=m, max_size=m)
    return st.lists(st.one_of(grid, wide), min_size=m, max_size=m)


@st.composite
def pair_cases(draw, max_m=8):
    m = draw(st.integers(1, max_m))
    flavour = draw(st.sampled_from(["grid", "grid", "wide", "mixed"] + (["penalty"] if max_m == 8 else [])))
    p = draw(vec(m, flavour))
    mode = draw(st.sampled_from(["independent", "derived", "derived", "identical"]))
    if flavour == "penalty" and mode == "derived":
        mode = "independent"
    if mode == "independent":
        q = draw(vec(m, flavour))
    elif mode == "identical":
        q = list(p)
    else:
        q = list(p)
        for i in range(m):
            act = draw(st.sampled_from(["keep", "keep", "raise", "lower", "nudge"]))
            if act == "keep":
                continue
            if act == "nudge":
                # strictly different by one to a few ulps / by 1e-10 relative: still strictly better or worse for
                # the Pareto comparator (the epsilon clause skips such pairs, they are not "separated")
                import math as _m
                up = draw(st.booleans())
                q[i] = _m.nextafter(p[i], _m.inf if up else -_m.inf, steps=draw(st.sampled_from([1, 1, 3, 1000000])))
                continue
            d = draw(st.one_of(st.integers(1, 3).map(float), st.floats(1e-6, 1e3)))
            step = max(d, abs(p[i]) * 1e-6)
            q[i] = p[i] + step if act == "raise" else p[i] - step
    mk = draw(st.sampled_from(["equal", "equal", "equal", "free"]))
    if mk == "equal":
        a = draw(st.sampled_from(MARKERS))
        b = a
    else:
        a = draw(st.sampled_from(MARKERS))
        b = draw(st.sampled_from(MARKERS))
    # objective values as plain floats or as numpy float64 (what calc_signed_costs stores)
    case = {"p": p + [a], "q": q + [b], "np": draw(st.sampled_from([False, True, "ndarray"]))}
    if draw(st.integers(0, 2)) == 0:
        # the comparator object has a past: it compared another pair before, with more (or fewer) objectives - what
        # the shared default comparator of Archive() sees when a 3-objective study is followed by a 2-objective one
        k = draw(st.integers(1, max_m + 2))
        case["prelude"] = [draw(vec(k, "grid")) + [draw(st.sampled_from(MARKERS))] for _ in range(2)]
    return case


def _nt_pair(p, q):
    if O.marker_rank(p[-1], q[-1]) != 0:
        return False
    a, b = p[:-1], q[:-1]
    tie = any(x == y for x, y in zip(a, b))
    mixed = any(x < y for x, y in zip(a, b)) and any(x > y for x, y in zip(a, b))
    return tie or mixed or (len(a) >= 2 and O.verdict(p, q) != 0)


_shared = {}


def check_pareto_pair(case):
    from artap.operators import ParetoDominance
    p, q = case["p"], case["q"]
    with guard("pareto"):
        # a comparator object lives as long as its selector / archive: one instance is reused across all cases of this
        # process and must answer like a fresh one (no state may survive a comparison)
        if "pareto" not in _shared:
            _shared["pareto"] = ParetoDominance()
        sv = _shared["pareto"].compare(npcosts(p, case.get("np")), npcosts(q, case.get("np")))
        cmp_ = ParetoDominance()
        if case.get("prelude"):
            cmp_.compare(npcosts(case["prelude"][0], case.get("np")), npcosts(case["prelude"][1], case.get("np")))
        v = cmp_.compare(npcosts(p, case.get("np")), npcosts(q, case.get("np")))
    if sv != v:
        raise Violation("pareto", "stateful-comparator", "a comparator that has been used before answers %r for (%r, %r), a "
                        "fresh one %r" % (sv, p, q, v))
    with guard("pareto"):
        w = cmp_.compare(npcosts(q, case.get("np")), npcosts(p, case.get("np")))
        rp = cmp_.compare(npcosts(p, case.get("np")), npcosts(p, case.get("np")))
        rq = cmp_.compare(npcosts(q, case.get("np")), npcosts(q, case.get("np")))
    exp = O.verdict(p, q)
    if v not in (0, 1, 2) or type(v) is bool:
        raise Violation("pareto", "verdict-domain", "compare returned %r" % (v,))
    if v != exp:
        kind = "markers" if O.marker_rank(p[-1], q[-1]) != 0 else "objectives"
        raise Violation("pareto", "verdict-wrong:%s:exp%d-got%d" % (kind, exp, v),
                        "compare(%r, %r) = %r, textbook verdict %r" % (p, q, v, exp))
    if w != O.swap(v):
        raise Violation("pareto", "not-antisymmetric", "compare(p,q)=%r but compare(q,p)=%r for %r, %r" % (v, w, p, q))
    if rp != 0 or rq != 0:
        raise Violation("pareto", "not-irreflexive", "compare(x,x) = %r/%r for %r / %r" % (rp, rq, p, q))
    return {"nt": _nt_pair(p, q), "classes": ["verdict%d" % exp,
                                              "markers-differ" if O.marker_rank(p[-1], q[-1]) else "markers-equal"]}


@st.composite
def triple_cases(draw, max_m=6):
    m = draw(st.integers(1, max_m))
    flavour = draw(st.sampled_from(["grid", "wide", "mixed"]))
    p = draw(vec(m, flavour))
    mode = draw(st.sampled_from(["chain", "chain", "chain", "independent"]))
    if mode == "independent":
        q, r = draw(vec(m, flavour)), draw(vec(m, flavour))
    else:
        def lower(v):
            out = list(v)
            forced = draw(st.integers(0, m - 1))
            for i in range(m):
                if i == forced or draw(st.booleans()):
                    d = draw(st.one_of(st.integers(1, 2).map(float), st.floats(1e-6, 10)))
                    out[i] = v[i] - max(d, abs(v[i]) * 1e-6)
            return out
        q = lower(p)
        r = lower(q)
    mk = draw(st.sampled_from(["equal", "equal", "free"]))
    if mk == "equal":
        a = draw(st.sampled_from(MARKERS))
        ms = [a, a, a]
    else:
        ms = [draw(st.sampled_from(MARKERS)) for _ in range(3)]
    order = draw(st.one_of(st.sampled_from([[0, 1, 2], [2, 1, 0]]), st.permutations([0, 1, 2])))
    vs = [p + [ms[0]], q + [ms[1]], r + [ms[2]]]
    return {"t": [vs[i] for i in order], "np": draw(st.booleans())}


def check_transitive(case):
    from artap.operators import ParetoDominance
    a, b, c = case["t"]
    with guard("transitive"):
        cmp_ = ParetoDominance()
        ab = cmp_.compare(npcosts(a, case.get("np")), npcosts(b, case.get("np")))
        bc = cmp_.compare(npcosts(b, case.get("np")), npcosts(c, case.get("np")))
        ac = cmp_.compare(npcosts(a, case.get("np")), npcosts(c, case.get("np")))
    prem = False
    for x in (1, 2):
        if ab == x and bc == x:
            prem = True
            if ac != x:
                raise Violation("transitive", "not-transitive",
                                "compare(a,b)=compare(b,c)=%d but compare(a,c)=%d for a=%r b=%r c=%r" % (x, ac, a, b, c))
    eq_m = O.marker_rank(a[-1], b[-1]) == 0 and O.marker_rank(b[-1], c[-1]) == 0
    return {"nt": prem and eq_m and len(a) > 2,
            "classes": ["premise" if prem else "no-premise", "markers-equal" if eq_m else "markers-differ"]}


# ---------------------------------------------------------------- epsilon comparator

eps_value = st.one_of(st.floats(1e-9, 1e6), st.sampled_from([0.1, 0.01, 1.0, 1e-3, 3.0]))


def separated(p, q):
    for x, y in zip(p, q):
        if x == y:
            continue
        if 0 < abs(x) < 1e-100 or 0 < abs(y) < 1e-100:
            return False      # outside the stated magnitude domain (underflow of cost/epsilon)
        if abs(x - y) < 1e-12 * max(abs(x), abs(y)):
            return False       # within ~10^4 ulps: "rounding error" for the scaled comparison
    return True


@st.composite
def eps_cases(draw):
    c = draw(pair_cases(max_m=6))
    m = len(c["p"]) - 1
    if draw(st.booleans()):
        eps = draw(st.lists(eps_value, min_size=1, max_size=m + 2))
    else:
        eps = draw(eps_value)   # scalar form
    c["eps"] = eps
    return c


def check_eps(case):
    from artap.operators import EpsilonDominance
    p, q, eps = case["p"], case["q"], case["eps"]
    if not separated(p[:-1], q[:-1]):
        return {"nt": False, "classes": ["skipped-not-separated"]}
    with guard("epsilon"):
        e = EpsilonDominance(eps if not isinstance(eps, list) else list(eps))
        if case.get("prelude"):
            e.compare(npcosts(case["prelude"][0], case.get("np")), npcosts(case["prelude"][1], case.get("np")))
        v = e.compare(npcosts(p, case.get("np")), npcosts(q, case.get("np")))
        w = e.compare(npcosts(q, case.get("np")), npcosts(p, case.get("np")))
    exp = O.verdict(p, q)
    identical = all(x == y for x, y in zip(p[:-1], q[:-1]))
    if v not in (0, 1, 2) or w not in (0, 1, 2):
        raise Violation("epsilon", "verdict-domain", "compare returned %r / %r" % (v, w))
    if not identical or O.marker_rank(p[-1], q[-1]) != 0:
        if v != exp:
            raise Violation("epsilon", "verdict-differs-from-pareto:exp%d-got%d" % (exp, v),
                            "EpsilonDominance(%r).compare(%r, %r) = %r, Pareto verdict %r" % (eps, p, q, v, exp))
        if w != O.swap(v):
            raise Violation("epsilon", "not-antisymmetric", "compare(p,q)=%r compare(q,p)=%r for %r, %r eps=%r" % (
                v, w, p, q, eps))
        return {"nt": _nt_pair(p, q), "classes": ["distinct", "verdict%d" % exp]}
    # identical objective vectors, equal markers: a loser must be named so that archives reject duplicates
    if v not in (1, 2) or w not in (1, 2):
        raise Violation("epsilon", "no-loser-for-identical", "identical vectors %r: compare -> %r / %r (eps=%r)" % (
            p, v, w, eps))
    return {"nt": True, "classes": ["identical"]}


# ---------------------------------------------------------------- exhaustive small grid

EX_MARK = [False, True, 0.5]


def _grid_vectors(m):
    for v in itertools.product([0.0, 1.0, 2.0], repeat=m):
        for mk in EX_MARK:
            yield list(v) + [mk]


def enum_pairs(tier):
    for m in (1, 2, 3):
        vs = list(_grid_vectors(m))
        for p in vs:
            for q in vs:
                yield {"p": p, "q": q}


def enum_triples(tier):
    for m in (1, 2) if tier == "quick" else (1, 2, 3):
        vs = list(_grid_vectors(m))
        for a in vs:
            for b in vs:
                for c in vs:
                    yield {"t": [a, b, c]}


def check_pair_both(case):
    r = check_pareto_pair(case)
    c = dict(case)
    c["eps"] = [0.1, 3.0]
    check_eps(c)
    return r


CLAUSES = [
    Clause("pareto", pair_cases(), check_pareto_pair, quick=20000, thorough=40000, quick_shards=4),
    Clause("transitive", triple_cases(), check_transitive, quick=10000, thorough=25000, quick_shards=2),
    Clause("epsilon", eps_cases(), check_eps, quick=12000, thorough=25000, quick_shards=2),
]
ENUMS = [
    Enum("grid-pairs", enum_pairs, check_pair_both, tiers=("quick", "thorough"), chunk=2500,
         exhaustive_note="all ordered pairs over {0,1,2}^m x {False,True,0.5}, m=1..3, Pareto and epsilon([0.1,3.0])"),
    Enum("grid-triples", enum_triples, check_transitive, tiers=("thorough",), chunk=40000,
         exhaustive_note="all ordered triples over {0,1,2}^m x {False,True,0.5}, m=1..3 (transitivity)"),
]
