"""C15 - single-objective benchmarks: total on their box, optimum where and as documented."""
import math
import atexit
import random
from hypothesis import strategies as st

from ..core import Clause, Enum, Violation, guard

PROPERTY = "C15"
LEVEL = "exploration"
RULE = ("every BenchmarkFunction subclass of benchmark_functions / benchmark_robust x the dimensions its constructor "
        "accepts (1..6, 10, 16 and 25; Michalewicz 2, 5, 10; fixed-dimension classes as they are); points: uniform in the box, "
        "corners and faces, lattice points (integers, multiples of pi/2), the documented optimum +- small perturbations "
        "clipped to the box, points projected onto the constraint surface sum x^2 = 1 for EqualityConstr; coordinates "
        "as Python floats or numpy float64; guided tier: SciPy local minimisers (L-BFGS-B, Nelder-Mead, Powell) "
        "started from drawn points, every visited point clipped into the box and sent through the same oracle; dense "
        "scans of the 1-D and 2-D functions. Clauses: T total (one finite real), V value at the documented optimum "
        "within 1e-3, B no point better than the documented optimum by more than 1e-3 in the declared direction. "
        "Non-trivial = a point within 1 % of the box diameter of the optimum, on the boundary, or reached by the "
        "local search")
ASSUMPTIONS = ["tolerance 1e-3 absolute (the documented constants carry 4-5 significant digits)",
               "clause B is a global-optimisation claim: random + local search + dense low-dimensional scans can miss a "
               "narrow basin; dimensions are capped at 25 (100 for the value at the documented optimum)",
               "XinSheYang3 draws random weights per call: every draw is checked"]

GENERIC = ["Rosenbrock", "Ackley", "Sphere", "Schwefel", "ModifiedEasom", "EqualityConstr", "Griewank", "Perm",
           "Rastrigin", "Zakharov", "XinSheYang", "XinSheYang2", "XinSheYang3", "AlpineFunction"]
DIMS = [1, 2, 3, 4, 5, 6, 10, 16, 25]
FIXED = ["SixHump", "Schubert", "Booth", "GramacyLee", "Synthetic1D", "Synthetic2D", "Synthetic5D", "Synthetic10D"]


def configs():
    out = []
    for c in GENERIC:
        for d in DIMS:
            out.append((c, d))
    for d in (2, 5, 10):
        out.append(("Michaelwicz", d))
    # "every dimension the constructor accepts": the other dimensions are probed at run time (see bench()); a
    # dimension the constructor rejects with ValueError is simply not part of the domain
    for d in (1, 3, 4, 6, 7, 8, 9, 12):
        out.append(("Michaelwicz?", d))
    for c in FIXED:
        out.append((c, None))
    return out


CONFIGS = configs()
# the documented optimum is also evaluated in high dimensions (one evaluation each), where a per-coordinate error in a
# constant adds up; CONFIGS stays a prefix so that the indices stored in replay files keep their meaning
OPT_CONFIGS = CONFIGS + [(c, d) for c in GENERIC for d in (50, 100)]
# literature optimum of the Michalewicz function (m=10), used only as a *starting region* for generated points and for
# the local search in the dimensions where the repository documents the optimal value but not its coordinates
HINTS = {"Michaelwicz": [2.202906, 1.570796, 1.284992, 1.923058, 1.720470, 1.570796, 1.454414, 1.756087, 1.655717,
                         1.570796]}
_cache = {}


class Rejected(Exception):
    pass


def bench(name, dim):
    key = (name, dim)
    if name.endswith("?"):
        if key not in _cache:
            try:
                _cache[key] = bench(name[:-1], dim)
            except (ValueError, AssertionError, KeyError):
                _cache[key] = None
        if _cache[key] is None:
            raise Rejected()
        return _cache[key]
    if key not in _cache:
        import artap.benchmark_functions as bf
        import artap.benchmark_robust as br
        cls = getattr(bf, name, None) or getattr(br, name)
        obj = cls(**({"dimension": dim} if dim is not None else {}))
        try:
            atexit.unregister(obj.cleanup)
        except Exception:
            pass
        _cache[key] = obj
    return _cache[key]


def sign_of(prob):
    c = prob.costs[0].get("criteria", "minimize")
    return -1.0 if c == "maximize" else 1.0


def box_of(prob):
    return [tuple(p["bounds"]) for p in prob.parameters]


def evaluate_checked(prob, name, dim, x, as_numpy, clause, how):
    """clauses T and B on one point; returns the value"""
    import numpy as np
    from artap.individual import Individual
    if as_numpy == "ndarray":
        vec = np.array([float(v) for v in x], dtype=float)      # the form in which SciPy-style callers hold a point
    else:
        vec = [np.float64(v) for v in x] if as_numpy else [float(v) for v in x]
    reps = 3 if name == "XinSheYang3" else 1
    val = None
    for _ in range(reps):
        with guard(clause):
            out = prob.evaluate(Individual(vec))
        if [float(v) for v in vec] != [float(v) for v in x]:
            raise Violation(clause, "%s:design-moved-by-evaluate" % name, "%s(d=%s): evaluating the point %r changed it "
                            "to %r" % (name, dim, [float(v) for v in x], [float(v) for v in vec]))
        try:
            n = len(out)
        except TypeError:
            raise Violation(clause, "%s:not-a-sequence" % name, "%s(d=%s) returned %r at %r" % (name, dim, out, x))
        if n != 1:
            raise Violation(clause, "%s:cost-count" % name, "%s(d=%s) returned %d costs at %r" % (name, dim, n, x))
        v = out[0]
        if isinstance(v, complex) or isinstance(v, bool):
            raise Violation(clause, "%s:not-real" % name, "%s(d=%s) returned %r at %r" % (name, dim, v, x))
        try:
            v = float(v)
        except (TypeError, ValueError):
            raise Violation(clause, "%s:not-real" % name, "%s(d=%s) returned %r at %r" % (name, dim, out[0], x))
        if not math.isfinite(v):
            raise Violation(clause, "%s:non-finite" % name, "%s(d=%s) = %r at %r (%s)" % (name, dim, v, x, how))
        sg = sign_of(prob)
        opt = float(prob.global_optimum)
        if sg * v < sg * opt - 1e-3:
            odd = "" if dim is None else (":odd" if dim % 2 else ":even")
            raise Violation(clause, "%s:better-than-documented-optimum%s" % (name, odd if name == "ModifiedEasom" else ""),
                            "%s(d=%s) = %r at %r (%s), documented %s optimum %r" % (
                                name, dim, v, [float(t) for t in x], how, "maximum" if sg < 0 else "minimum", opt))
        val = v
    return val


def clip(x, box):
    return [min(ub, max(lb, float(v))) for v, (lb, ub) in zip(x, box)]


@st.composite
def point_cases(draw):
    ci = draw(st.sampled_from(list(range(len(CONFIGS)))))
    kind = draw(st.sampled_from(["uniform", "uniform", "corner", "lattice", "optimum", "optimum", "sphere"]))
    n = 10      # coordinates beyond the 10th reuse these draws cyclically
    t = [draw(st.floats(0.0, 1.0)) for _ in range(n)]
    pick = [draw(st.integers(0, 7)) for _ in range(n)]
    eps = draw(st.sampled_from([0.0, 1e-9, 1e-6, 1e-4, 1e-3, 1e-2]))
    return {"cfg": ci, "kind": kind, "t": t, "pick": pick, "eps": eps, "np": draw(st.sampled_from([False, True, "ndarray"]))}


def build_point(case, prob):
    box = box_of(prob)
    d = len(box)
    kind = case["kind"]
    t, pick = case["t"], case["pick"]
    has_opt = getattr(prob, "global_optimum_coords", None) is not None and \
        "global_optimum_coords" in prob.__dict__
    hint = None
    if kind == "optimum" and not has_opt:
        hint = HINTS.get(type(prob).__name__)
        if hint is not None and len(hint) < len(box):
            hint = None
        kind = "hint" if hint else "uniform"
    if kind == "sphere" and type(prob).__name__ != "EqualityConstr":
        kind = "uniform"
    x = []
    for i, (lb, ub) in enumerate(box):
        w = ub - lb
        if kind == "uniform":
            x.append(lb + t[i % 10] * w)
        elif kind == "corner":
            x.append([lb, ub, lb, ub, lb + t[i % 10] * w, (lb + ub) / 2, lb, ub][pick[i % 10]])
        elif kind == "lattice":
            base = [math.floor(lb + t[i % 10] * w), round(lb + t[i % 10] * w),
                    (math.pi / 2) * round((lb + t[i % 10] * w) / (math.pi / 2)),
                    math.pi * round((lb + t[i % 10] * w) / math.pi)][pick[i % 10] % 4]
            x.append(base)
        elif kind == "optimum":
            o = float(prob.global_optimum_coords[i])
            x.append(o + (2 * t[i % 10] - 1) * case["eps"] * w)
        elif kind == "hint":
            x.append(hint[i] + (2 * t[i % 10] - 1) * case["eps"] * w)
        else:
            x.append(max(t[i % 10], 1e-3))
    if kind == "sphere":
        nrm = math.sqrt(sum(v * v for v in x))
        x = [v / nrm for v in x]
    return clip(x, box), kind


def check_points(case):
    name, dim = CONFIGS[case["cfg"]]
    try:
        with guard("points", allowed=(Rejected,)):
            prob = bench(name, dim)
    except Rejected:
        return {"nt": False, "classes": ["dimension-rejected-by-constructor"]}
    name = name.rstrip("?")
    box = box_of(prob)
    x, kind = build_point(case, prob)
    v = evaluate_checked(prob, name, dim, x, case["np"], "points", kind)
    diam = math.sqrt(sum((ub - lb) ** 2 for lb, ub in box))
    near = False
    if "global_optimum_coords" in prob.__dict__:
        dist = math.sqrt(sum((a - float(b)) ** 2 for a, b in zip(x, prob.global_optimum_coords)))
        near = dist <= 0.01 * diam
    boundary = any(a in (lb, ub) for a, (lb, ub) in zip(x, box))
    return {"nt": near or boundary, "classes": [name, kind, "ndarray" if case["np"] == "ndarray" else "numpy" if case["np"] else "pyfloat"]}


# ---------------------------------------------------------------- clause V: the documented optimum (enumerated)

def optimum_items(tier):
    for i, (name, dim) in enumerate(OPT_CONFIGS):
        for as_np in (False, True, "ndarray"):
            yield {"cfg": i, "np": as_np}


def check_optimum(case):
    name, dim = OPT_CONFIGS[case["cfg"]]
    try:
        with guard("optimum", allowed=(Rejected,)):
            prob = bench(name, dim)
    except Rejected:
        return {"nt": False, "classes": ["dimension-rejected-by-constructor"]}
    name = name.rstrip("?")
    if "global_optimum_coords" not in prob.__dict__:
        return {"nt": False, "classes": ["no-documented-coordinates"]}
    x = [float(v) for v in prob.global_optimum_coords]
    box = box_of(prob)
    if len(x) != len(box) or any(not (lb <= a <= ub) for a, (lb, ub) in zip(x, box)):
        raise Violation("optimum", "%s:optimum-outside-box" % name, "%s(d=%s): documented optimum %r not in box %r" % (
            name, dim, x, box))
    v = evaluate_checked(prob, name, dim, x, case["np"], "optimum", "documented optimum")
    opt = float(prob.global_optimum)
    if abs(v - opt) > 1e-3:
        odd = "" if dim is None else (":odd" if dim % 2 else ":even")
        raise Violation("optimum", "%s:value-at-optimum%s" % (name, odd if name == "ModifiedEasom" else ""),
                        "%s(d=%s) = %r at its documented optimum %r, documented value %r" % (name, dim, v, x, opt))
    return {"nt": True, "classes": [name]}


# ---------------------------------------------------------------- guided search (clause B with a fitness signal)

@st.composite
def search_cases(draw):
    ci = draw(st.sampled_from(list(range(len(CONFIGS)))))
    return {"cfg": ci, "t": [draw(st.floats(0.0, 1.0)) for _ in range(10)],
            "method": draw(st.sampled_from(["L-BFGS-B", "Nelder-Mead", "Powell"])),
            "near": draw(st.booleans()), "seed": draw(st.integers(0, 2 ** 31))}


def check_search(case):
    import numpy as np
    from scipy.optimize import minimize
    name, dim = CONFIGS[case["cfg"]]
    try:
        with guard("search", allowed=(Rejected,)):
            prob = bench(name, dim)
    except Rejected:
        return {"nt": False, "classes": ["dimension-rejected-by-constructor"]}
    name = name.rstrip("?")
    box = box_of(prob)
    sg = sign_of(prob)
    x0 = [lb + case["t"][i % 10] * (ub - lb) for i, (lb, ub) in enumerate(box)]
    centre = prob.global_optimum_coords if "global_optimum_coords" in prob.__dict__ else HINTS.get(name)
    if centre is not None and len(centre) < len(box):
        centre = None
    if case["near"] and centre is not None:
        x0 = clip([float(o) + (2 * case["t"][i % 10] - 1) * 0.02 * (ub - lb)
                   for i, (o, (lb, ub)) in enumerate(zip(centre, box))], box)
    visited = [0]
    random.seed(case["seed"])

    def fun(x):
        xx = clip(x, box)
        visited[0] += 1
        v = evaluate_checked(prob, name, dim, xx, False, "search", "local search %s" % case["method"])
        return sg * v
    kw = {"method": case["method"], "options": {"maxiter": 60 if len(box) > 4 else 120}}
    if case["method"] in ("L-BFGS-B", "Powell"):
        kw["bounds"] = box
    try:
        minimize(fun, np.array(x0), **kw)
    except Violation:
        raise
    except (ValueError, FloatingPointError, ZeroDivisionError):
        pass        # the optimiser gave up (not code under test)
    return {"nt": visited[0] >= 10, "classes": [name, case["method"]]}


# ---------------------------------------------------------------- dense scans of the low-dimensional functions

def scan_items(tier):
    n1 = 4001 if tier == "quick" else 40001
    n2 = 81 if tier == "quick" else 401
    for i, (name, dim) in enumerate(CONFIGS):
        d = dim if dim is not None else {"GramacyLee": 1, "Synthetic1D": 1, "SixHump": 2, "Schubert": 2, "Booth": 2,
                                         "Synthetic2D": 2}.get(name)
        if d == 1:
            for lo in range(0, n1, 500):
                yield {"cfg": i, "grid": n1, "lo": lo, "hi": min(n1, lo + 500)}
        elif d == 2:
            for row in range(n2):
                yield {"cfg": i, "grid": n2, "row": row}


def check_scan(case):
    name, dim = CONFIGS[case["cfg"]]
    try:
        with guard("scan", allowed=(Rejected,)):
            prob = bench(name, dim)
    except Rejected:
        return {"nt": False, "classes": ["dimension-rejected-by-constructor"], "n": 0}
    name = name.rstrip("?")
    box = box_of(prob)
    g = case["grid"]
    if "row" in case:
        (l0, u0), (l1, u1) = box
        y = l1 + (u1 - l1) * case["row"] / (g - 1)
        for k in range(g):
            evaluate_checked(prob, name, dim, [l0 + (u0 - l0) * k / (g - 1), y], False, "scan", "dense scan")
        return {"nt": True, "classes": [name], "n": g}
    (l0, u0), = box
    for k in range(case["lo"], case["hi"]):
        evaluate_checked(prob, name, dim, [l0 + (u0 - l0) * k / (g - 1)], False, "scan", "dense scan")
    return {"nt": True, "classes": [name], "n": case["hi"] - case["lo"]}


CLAUSES = [
    Clause("points", point_cases(), check_points, quick=10000, thorough=100000, quick_shards=4),
    Clause("search", search_cases(), check_search, quick=300, thorough=3000, quick_shards=4),
]
ENUMS = [
    Enum("optimum", optimum_items, check_optimum, tiers=("quick", "thorough"), chunk=60,
         exhaustive_note="the documented optimum of every (class, dimension) pair, as Python floats and numpy scalars"),
    Enum("scan", scan_items, check_scan, tiers=("quick", "thorough"), chunk=40,
         exhaustive_note="dense grids over the 1-D (4001 / 40001 points) and 2-D (81^2 / 401^2 points) functions"),
]
