"""C13 - factorial and screening designs have their defining combinatorial structure."""
import math
import itertools
from collections import Counter
from hypothesis import strategies as st

from ..core import Clause, Enum, Violation, guard, ulp, HarnessError
from .c12 import box12
from ..harness import pname, NAME_STYLES

PROPERTY = "C13"
LEVEL = "exploration"
RULE = ("FullFactor(+-centre) d=1..6 and FullFactorLevels with drawn unique level lists (product <= 5000): multiset of "
        "rows == itertools.product(levels); Plackett-Burman: every factor count 1..127 enumerated (quick: 1..47) x "
        "drawn bounds: supported run counts (2^e, 12*2^e, 20*2^e) must produce a two-level, balanced, pairwise "
        "orthogonal design of 4(floor(n/4)+1) runs, other counts may only be rejected with AssertionError; "
        "Box-Behnken n=3..10: rows == all four +- corners of every factor pair (others mid) + one centre; GSD: "
        "build_gsd(levels, r, n=r) and GSDGenerator with k>=2 factors and levels >= r >= 2: duplicate-free subset of "
        "the full factorial, complementary designs pairwise disjoint with union == full factorial; sequences of 2..4 "
        "generators (full factorial, +centre, PB, BB) over ONE shared parameter list, each checked against the declared "
        "bounds; level lists and PB bounds also hold Python ints (beyond 2**53) and mix ints with floats, compared "
        "exactly. Non-trivial = >= 3 "
        "factors, or a PB design built by Kronecker doubling, or unequal level counts in GSD")
ASSUMPTIONS = ["level lists hold distinct values", "bounds lb<ub with width >= 1e-9*|bound| (levels distinguishable)",
               "GSD domain: k>=2 factors, level counts >= 2, reduction >= 2; a ValueError is accepted only when some level count is "
               "below the reduction"]


def _tol(lb, ub):
    return 1e-12 * abs(ub - lb) + 4 * ulp(max(abs(lb), abs(ub)))


def _ps(boxes, names="x"):
    return [{"name": pname(i, names), "bounds": list(b)} for i, b in enumerate(boxes)]


# ---------------------------------------------------------------- full factorial

levelval = st.one_of(st.integers(-5, 5).map(float), st.floats(-100, 100, allow_nan=False).map(lambda x: round(x, 2)))
# levels are the user's own values and are handed through as given: Python ints (also beyond 2**53, where neighbouring
# integers are not representable as doubles) and lists mixing ints and floats are part of the domain
BIG = 2 ** 53
intval = st.one_of(st.integers(-9, 9), st.integers(BIG - 2, BIG + 6), st.integers(-BIG - 6, -BIG + 2),
                   st.integers(2 ** 63 - 2, 2 ** 63 + 2))
anyval = st.one_of(levelval, levelval, intval)


def py(x):
    """numpy scalar -> the Python number it holds, so that == and hash are exact (int/float comparisons in Python are)"""
    return x.item() if hasattr(x, "item") else x


@st.composite
def ff_cases(draw):
    kind = draw(st.sampled_from(["bounds", "centre", "levels", "levels"]))
    if kind == "levels":
        d = draw(st.integers(1, 5))
        levels = []
        prod = 1
        for _ in range(d):
            cap = max(1, min(9, 5000 // prod))
            lv = draw(st.lists(draw(st.sampled_from([levelval, levelval, intval, anyval])), min_size=1, max_size=cap,
                               unique=True))
            prod *= len(lv)
            levels.append(lv)
        return {"kind": kind, "levels": levels}
    d = draw(st.integers(1, 7 if kind == "centre" else 6))
    return {"kind": kind, "boxes": [draw(box12()) for _ in range(d)], "names": draw(st.sampled_from(NAME_STYLES))}


def check_fullfact(case, ps=None):
    import artap.operators as ops
    kind = case["kind"]
    if kind == "levels":
        levels = [list(l) for l in case["levels"]]
        ps = _ps([(0.0, 1.0)] * len(levels))
        with guard("fullfact"):
            g = ops.FullFactorLevelsGenerator(ps)
            g.init([list(l) for l in levels])
            rows = [tuple(py(x) for x in r) for r in g.generate()]
        want = Counter(itertools.product(*levels))
        got = Counter(rows)
    else:
        boxes = case["boxes"]
        with guard("fullfact"):
            g = ops.FullFactorGenerator(ps if ps is not None else _ps(boxes, case.get("names", "x")))
            g.init(kind == "centre")
            raw = [list(map(float, r)) for r in g.generate()]
        levels = [[lb, (lb + ub) / 2.0, ub] if kind == "centre" else [lb, ub] for lb, ub in boxes]
        got = Counter()
        for r in raw:
            if len(r) != len(boxes):
                raise Violation("fullfact", "shape", "row %r for %d factors" % (r, len(boxes)))
            idx = []
            for j, x in enumerate(r):
                hit = [i for i, L in enumerate(levels[j]) if abs(x - L) <= _tol(*boxes[j])]
                if len(hit) != 1:
                    raise Violation("fullfact", "level", "value %r of factor %d is not a level of %r" % (x, j, levels[j]))
                idx.append(hit[0])
            got[tuple(idx)] += 1
        want = Counter(itertools.product(*[range(len(l)) for l in levels]))
    if got != want:
        raise Violation("fullfact", "combinations:%s" % kind, "%s: missing %r, extra/repeated %r (levels %r)" % (
            kind, list((want - got).items())[:3], list((got - want).items())[:3], levels))
    d = len(levels)
    return {"nt": d >= 3, "classes": [kind, "d%d" % d]}


# ---------------------------------------------------------------- Plackett-Burman

def pb_supported(runs):
    for base in (1, 12, 20):
        if runs % base == 0:
            q = runs // base
            if q >= 1 and q & (q - 1) == 0 and (base != 1 or q >= 2):
                return True
    return False


def pb_items(tier):
    top = 47 if tier == "quick" else 127
    boxsets = [(-1.0, 1.0), (0.0, 10.0), (-1e6, -1e6 + 0.5), (3.0, 3.0 + 1e-2)]
    for n in range(1, top + 1):
        for b in boxsets[:2] if tier == "quick" else boxsets:
            yield {"n": n, "box": list(b)}


def check_pb(case, ps=None):
    import artap.operators as ops
    n = case["n"]
    boxes = case.get("boxes") or [case["box"]] * n
    runs = 4 * (n // 4 + 1)
    sup = pb_supported(runs)
    try:
        with guard("plackett-burman", allowed=(AssertionError,)):
            g = ops.PlackettBurmanGenerator(ps if ps is not None else _ps(boxes, case.get("names", "x")))
            rows = [[py(x) for x in r] for r in g.generate()]
    except AssertionError as e:
        if sup:
            raise Violation("plackett-burman", "supported-size-rejected", "n=%d (runs %d) rejected: %s" % (n, runs, e))
        return {"nt": False, "classes": ["rejected-unsupported"]}
    if not sup:
        # produced although the construction is not defined for this size: must still be a valid design
        pass
    _pb_structure(rows, boxes, n, runs, "")
    extra = case.get("extra") or 0
    if extra and ps is None:
        # the design function itself accepts level lists longer than two and documents that "the end point is assigned
        # to the high level": the design must still use only the first and the last level of every factor
        import artap.doe as doe
        levels = {}
        for j, (lb, ub) in enumerate(boxes):
            levels["f%d" % j] = [lb] + [lb + (ub - lb) * (i + 1) / (extra + 1.0) for i in range(extra)] + [ub]
        with guard("plackett-burman"):
            rows2 = [[py(x) for x in r] for r in _rows(doe.build_plackett_burman(levels))]
        _pb_structure(rows2, boxes, n, runs, " (level lists of %d values)" % (extra + 2))
    doubled = runs not in (4, 8, 12, 20) and runs >= 16
    return {"nt": n >= 3 and (doubled or n >= 8), "classes": ["runs%d" % runs, "kronecker" if doubled else "base"] + (
        ["long-level-lists"] if extra and ps is None else [])}


def _rows(df):
    return df.values.tolist() if hasattr(df, "values") else [list(r) for r in df]


def _pb_structure(rows, boxes, n, runs, note):
    if len(rows) != runs:
        raise Violation("plackett-burman", "run-count", "n=%d: %d runs, expected %d%s" % (n, len(rows), runs, note))
    cols = []
    for j in range(n):
        col = []
        for r in rows:
            if len(r) != n:
                raise Violation("plackett-burman", "shape", "row of %d values for %d factors" % (len(r), n))
            x = r[j]
            lb, ub = boxes[j]
            if x == lb:
                col.append(-1)
            elif x == ub:
                col.append(1)
            else:
                raise Violation("plackett-burman", "not-two-level", "n=%d: value %r is neither bound of %r%s" % (
                    n, x, (lb, ub), note))
        cols.append(col)
    for j, c in enumerate(cols):
        if sum(c) != 0:
            raise Violation("plackett-burman", "unbalanced-column", "n=%d column %d has sum %d%s" % (n, j, sum(c), note))
    for a in range(n):
        for b in range(a + 1, n):
            ip = sum(x * y for x, y in zip(cols[a], cols[b]))
            if ip != 0:
                raise Violation("plackett-burman", "not-orthogonal", "n=%d columns %d,%d inner product %d%s" % (
                    n, a, b, ip, note))


@st.composite
def pb_cases(draw):
    n = draw(st.integers(1, 23))
    if draw(st.integers(0, 4)) == 0:        # integer bounds, also where doubles cannot tell neighbours apart
        lo = draw(intval)
        b = [lo, lo + draw(st.sampled_from([1, 2, 3, 10, 10 ** 17]))]
    else:
        b = draw(box12())
    return {"n": n, "box": b, "names": draw(st.sampled_from(NAME_STYLES)), "extra": draw(st.sampled_from([0, 0, 1, 2, 5]))}


# ---------------------------------------------------------------- Box-Behnken

@st.composite
def bb_cases(draw):
    n = draw(st.integers(3, 10))
    return {"boxes": [draw(box12()) for _ in range(n)], "names": draw(st.sampled_from(NAME_STYLES))}


def check_bb(case, ps=None):
    import artap.operators as ops
    boxes = case["boxes"]
    n = len(boxes)
    with guard("box-behnken"):
        g = ops.BoxBehnkenGenerator(ps if ps is not None else _ps(boxes, case.get("names", "x")))
        rows = [list(map(float, r)) for r in g.generate()]
    want = Counter()
    for a, b in itertools.combinations(range(n), 2):
        for sa in (-1, 1):
            for sb in (-1, 1):
                code = [0] * n
                code[a], code[b] = sa, sb
                want[tuple(code)] += 1
    want[tuple([0] * n)] += 1
    got = Counter()
    for r in rows:
        if len(r) != n:
            raise Violation("box-behnken", "shape", "row of %d values for %d factors" % (len(r), n))
        code = []
        for j, x in enumerate(r):
            lb, ub = boxes[j]
            mid = (lb + ub) / 2.0
            t = _tol(lb, ub)
            if abs(x - lb) <= t:
                code.append(-1)
            elif abs(x - ub) <= t:
                code.append(1)
            elif abs(x - mid) <= t:
                code.append(0)
            else:
                raise Violation("box-behnken", "level", "value %r is not low/mid/high of %r" % (x, boxes[j]))
        got[tuple(code)] += 1
    if got != want:
        raise Violation("box-behnken", "rows", "n=%d: %d rows (expected %d); missing %r extra %r" % (
            n, len(rows), 2 * n * (n - 1) + 1, list((want - got).items())[:3], list((got - want).items())[:3]))
    return {"nt": True, "classes": ["n%d" % n]}


# ---------------------------------------------------------------- several generators over one parameter list

@st.composite
def seq_cases(draw):
    d = draw(st.integers(3, 6))
    boxes = [draw(box12()) for _ in range(d)]
    kinds = draw(st.lists(st.sampled_from(["bounds", "centre", "pb", "bb"]), min_size=2, max_size=4))
    return {"boxes": boxes, "kinds": kinds, "names": draw(st.sampled_from(NAME_STYLES))}


def check_sequence(case):
    """the user's parameter list is shared by every generator of a study (as in a Problem): each design must have its
    structure with respect to the declared bounds whatever ran before it"""
    boxes = [list(b) for b in case["boxes"]]
    ps = _ps(boxes, case.get("names", "x"))
    for pos, kind in enumerate(case["kinds"]):
        try:
            if kind in ("bounds", "centre"):
                check_fullfact({"kind": kind, "boxes": boxes}, ps=ps)
            elif kind == "pb":
                check_pb({"n": len(boxes), "boxes": boxes}, ps=ps)
            else:
                check_bb({"boxes": boxes}, ps=ps)
        except Violation as v:
            raise Violation("sequence", "%s-after-%s:%s" % (kind, case["kinds"][pos - 1] if pos else "nothing", v.bucket),
                            "generators %r over one parameter list, step %d: %s" % (case["kinds"], pos, v.message))
    return {"nt": len(set(case["kinds"])) >= 2, "classes": ["len%d" % len(case["kinds"])] + sorted(set(case["kinds"]))}


# ---------------------------------------------------------------- GSD

@st.composite
def gsd_cases(draw):
    k = draw(st.integers(2, 5))
    r = draw(st.integers(2, 5))
    levels = []
    prod = 1
    for _ in range(k):
        # level counts below the reduction are allowed too (construction succeeds for almost all of them on the
        # pinned tree: 1839 of 1844 probed configurations; the rest raise ValueError, which is the documented rejection)
        L = draw(st.integers(2, max(2, min(7, max(2, 4000 // prod)))))
        prod *= L
        levels.append(L)
    values = [[float(10 * i + j) for j in range(L)] for i, L in enumerate(levels)]
    return {"levels": levels, "r": r, "values": values}


def check_gsd(case):
    import numpy as np
    import artap.operators as ops
    from artap.doe import build_gsd
    levels, r = case["levels"], case["r"]
    full = set(itertools.product(*[range(L) for L in levels]))
    try:
        with guard("gsd", allowed=(ValueError, AssertionError)):
            designs = build_gsd(list(levels), r, n=r)
            single = build_gsd(list(levels), r)
            g = ops.GSDGenerator(_ps([(0.0, 1.0)] * len(levels)))
            g.init([list(v) for v in case["values"]], r)
            gen_rows = [tuple(float(x) for x in row) for row in g.generate()]
    except (ValueError, AssertionError) as e:
        if (case["levels"] == [3, 4] and r == 2) or all(L >= r for L in levels):
            raise Violation("gsd", "constructible-design-rejected", "gsd(%r, %d) raised %r" % (levels, r, e))
        return {"nt": False, "classes": ["rejected"]}
    if len(designs) != r:
        raise Violation("gsd", "complementary-count", "levels %r r=%d: %d designs returned" % (levels, r, len(designs)))
    sets = []
    for di, D in enumerate(designs):
        rows = [tuple(int(x) for x in row) for row in np.asarray(D)]
        if len(set(rows)) != len(rows):
            raise Violation("gsd", "duplicate-rows", "levels %r r=%d design %d has duplicate rows" % (levels, r, di))
        if not set(rows) <= full:
            raise Violation("gsd", "outside-full-factorial", "levels %r r=%d design %d has rows outside the factorial: %r" % (
                levels, r, di, list(set(rows) - full)[:3]))
        sets.append(set(rows))
    for a in range(r):
        for b in range(a + 1, r):
            if sets[a] & sets[b]:
                raise Violation("gsd", "complementary-overlap", "levels %r r=%d designs %d,%d share %r" % (
                    levels, r, a, b, list(sets[a] & sets[b])[:3]))
    union = set().union(*sets)
    if union != full:
        raise Violation("gsd", "complementary-union", "levels %r r=%d: union has %d of %d combinations, missing %r" % (
            levels, r, len(union), len(full), list(full - union)[:3]))
    srows = set(tuple(int(x) for x in row) for row in np.asarray(single))
    if srows != sets[0]:
        raise Violation("gsd", "single-differs", "build_gsd(n=1) differs from the first complementary design")
    want = set(tuple(case["values"][i][c] for i, c in enumerate(row)) for row in sets[0])
    if set(gen_rows) != want or len(gen_rows) != len(want):
        raise Violation("gsd", "generator-mapping", "GSDGenerator rows do not map the design onto the supplied values")
    uneq = len(set(levels)) > 1
    below = any(L < r for L in levels)
    return {"nt": len(levels) >= 3 or uneq, "classes": ["k%d" % len(levels), "r%d" % r, "unequal" if uneq else "equal",
                                                        "levels<r" if below else "levels>=r"]}


CLAUSES = [
    Clause("fullfact", ff_cases(), check_fullfact, quick=500, thorough=4000, quick_shards=2),
    Clause("plackett-burman", pb_cases(), check_pb, quick=200, thorough=2000),
    Clause("box-behnken", bb_cases(), check_bb, quick=200, thorough=2000),
    Clause("gsd", gsd_cases(), check_gsd, quick=300, thorough=3000, quick_shards=2),
    Clause("sequence", seq_cases(), check_sequence, quick=150, thorough=1500),
]
ENUMS = [
    Enum("pb-sweep", pb_items, check_pb, tiers=("quick", "thorough"), chunk=24,
         exhaustive_note="every factor count 1..47 (quick) / 1..127 (thorough) x fixed bound sets"),
]
