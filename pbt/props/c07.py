"""C07 - parallel evaluation is equivalent to serial evaluation under every schedule (harness-owned scheduler)."""
import os
import json
import sqlite3
import time
import itertools
import threading
from hypothesis import strategies as st

from ..core import Clause, Enum, Violation, guard, HarnessError
from ..harness import make_problem, dispose, seed_all
from ..sched import Scheduler, run_scheduled

PROPERTY = "C07"
LEVEL = "exploration"
RULE = ("schedules: batch size 1..8, 2..4 worker threads (joblib threading backend, one Job.evaluate per task), the "
        "release order at the gates objective-entry / objective-exit / constraint / store-sync-entry / store-sync-exit "
        "is a generated list of integers and burst tokens, store in {Dummy, SQLite} (optionally with two more gates inside the synchronisation: before the upsert and before the commit, where the exclusive lock is held), optional transient failures on "
        "some tasks; oracle: differential against serial evaluation of an identical batch (vector, costs, signed "
        "costs, state per design), objective calls per design, one SQLite row per design equal to its final data. "
        "Bounded-exhaustive: ALL release orders at gate granularity for (2 tasks, 2 workers) and (3 tasks, 2 workers) "
        "[quick] and (3 tasks, 3 workers) [thorough], by stateless re-execution of choice prefixes. Non-trivial = a "
        "schedule in which >= 2 tasks are simultaneously between objective entry and task end and the release order "
        "differs from task order")
ASSUMPTIONS = ["interleavings are controlled at the granularity the property names (objective call, store "
               "synchronisation); finer interleavings only occur inside 'burst' releases under the OS scheduler",
               "failure plans are limited to <= 2 leading transient failures per design (no abort of the batch)",
               "run-level clause: NSGA-II / EpsMOEA / OMOPSO / SMPSO runs (N 2..4, G 1..2) with worker threads under a "
               "generated release order must record exactly what the serial run with the same seed records"]


@st.composite
def schedules(draw):
    b = draw(st.integers(1, 8))
    workers = draw(st.integers(2, 4))
    toks = draw(st.lists(st.one_of(st.integers(0, 3), st.integers(0, 3), st.integers(0, 3), st.integers(0, 3),
                                   st.just("B")), min_size=1, max_size=60))
    fails = [draw(st.sampled_from([0, 0, 0, 1, 2])) for _ in range(b)]
    store = draw(st.booleans())
    return {"b": b, "workers": workers, "tokens": toks, "store": store,
            # gates inside the store synchronisation as well (before the upsert, before the commit = lock held)
            "sqlgates": store and draw(st.booleans()),
            "constraints": draw(st.booleans()), "fails": fails if draw(st.booleans()) else [0] * b,
            "default": draw(st.integers(0, 3)), "cycle": True, "seed": draw(st.integers(0, 2 ** 31)),
            # a model that really computes (25 ms of the calling thread's CPU time per call) under a declared time
            # limit per calculation (option time_out) that every single call respects
            "cpu": b >= 3 and draw(st.sampled_from([False] * 11 + [True])),
            # the database file is locked by somebody else for the first k write attempts of the parallel run
            "busy": draw(st.sampled_from([0, 0, 0, 1, 2, 4])) if store else 0}


def _burn(seconds):
    end = time.thread_time() + seconds
    while time.thread_time() < end:
        pass


def _f(x):
    return [sum(float(v) for v in x) * 1.5 + float(x[0]) ** 2, float(x[0]) - 2.0 * float(x[-1])]


def _g(x):
    return [float(x[0]) - 0.5]


def _vectors(b):
    return [[0.125 * (i + 1), 1.0 - 0.0625 * i] for i in range(b)]


def run_batch(case, clause, parallel):
    """returns per-design records and (for the parallel run) the scheduler"""
    from artap.individual import Individual
    from artap.algorithm import DummyAlgorithm
    from artap.datastore import SqliteDataStore
    b = case["b"]
    sched = Scheduler(b, case["workers"], case["tokens"], default=case.get("default", 0),
                      cycle=case.get("cycle", False)) if parallel else None
    lock = threading.Lock()
    calls = {}

    def gate(name):
        if sched is not None:
            sched.gate(name)

    def ev(ind):
        tag = ind.custom["tag"]
        gate("objective-entry")
        with lock:
            k = calls.get(tag, 0)
            calls[tag] = k + 1
        try:
            if k < case["fails"][tag]:
                raise RuntimeError("injected transient failure")
            if case.get("cpu"):
                _burn(0.025)
            return _f(ind.vector)
        finally:
            gate("objective-exit")

    def con(x):
        gate("constraint")
        return _g(x)

    ps = [{"name": "a", "bounds": [0.0, 2.0]}, {"name": "b", "bounds": [0.0, 2.0]}]
    cs = [{"name": "f0", "criteria": "minimize"}, {"name": "f1", "criteria": "maximize"}]
    prob = make_problem(ps, cs, ev, constraints=con if case["constraints"] else None)
    if case.get("cpu"):
        prob.options["time_out"] = 0.06
    seed_all(case["seed"])
    db = None
    real_connect = sqlite3.connect

    busy_left = [case.get("busy", 0) if parallel else 0]

    class GCursor(sqlite3.Cursor):
        def execute(self, sql, *a, **kw):
            if isinstance(sql, str) and sql.lstrip().upper().startswith("INSERT INTO INDIVIDUALS"):
                if case.get("sqlgates"):
                    gate("sql-upsert")
                with lock:
                    fire = busy_left[0] > 0
                    if fire:
                        busy_left[0] -= 1
                if fire:
                    raise sqlite3.OperationalError("database is locked")
            return super().execute(sql, *a, **kw)

    class GConn(sqlite3.Connection):
        def cursor(self, *a, **kw):
            return super().cursor(GCursor)

        def commit(self):
            if self.in_transaction and case.get("sqlgates"):
                gate("sql-commit")          # the exclusive lock is held here
            return super().commit()

    def gated_connect(*a, **kw):
        kw.setdefault("factory", GConn)
        return real_connect(*a, **kw)
    use_sql = bool(parallel and (case.get("sqlgates") or case.get("busy")))
    if use_sql:
        sqlite3.connect = gated_connect
    try:
        with guard(clause):
            if case["store"]:
                db = os.path.join(prob.working_dir, "c07.sqlite")

                class GatedStore(SqliteDataStore):
                    def sync_individual(self, individual):
                        gate("sync-entry")
                        try:
                            return super().sync_individual(individual)
                        finally:
                            gate("sync-exit")
                prob.data_store = GatedStore(prob, database_name=db)
            alg = DummyAlgorithm(prob)
            if parallel:
                alg.options["max_processes"] = case["workers"]
        inds = []
        for tag, v in enumerate(_vectors(b)):
            ind = Individual(list(v))
            ind.custom["tag"] = tag
            inds.append(ind)
        if parallel:
            real_eval = alg.evaluator.job.evaluate

            def tracked(individual):
                sched.task_start(individual.custom["tag"])
                try:
                    return real_eval(individual)
                finally:
                    sched.task_end(individual.custom["tag"])
            alg.evaluator.job.evaluate = tracked

            def body():
                with guard(clause):
                    alg.evaluate(inds)
            run_scheduled(sched, body)
        else:
            with guard(clause):
                alg.evaluate(inds)
        rows = None
        if db:
            con_ = sqlite3.connect(db)
            rows = [(r[0], json.loads(r[1])) for r in con_.execute("SELECT id, individual FROM individuals")]
            con_.close()
        recs = [{"id": i.id, "vector": [float(x) for x in i.vector], "costs": [float(c) for c in i.costs],
                 "signed": [float(c) if not isinstance(c, bool) else c for c in i.costs_signed],
                 "state": str(i.state), "calls": calls.get(t, 0)} for t, i in enumerate(inds)]
        return recs, rows, sched
    finally:
        sqlite3.connect = real_connect
        dispose(prob)


def check_schedule(case, clause="schedule"):
    fails = case["fails"]
    exp, _, _ = run_batch(case, clause, parallel=False)
    got, rows, sched = run_batch(case, clause, parallel=True)
    for t, (e, g) in enumerate(zip(exp, got)):
        if g["calls"] != fails[t] + 1:
            raise Violation(clause, "objective-call-count", "design %d evaluated %d times under schedule %r (expected %d)" % (
                t, g["calls"], sched.trace, fails[t] + 1))
        if g["state"] != e["state"]:
            raise Violation(clause, "state-differs", "design %d: state %s, serial %s" % (t, g["state"], e["state"]))
        if fails[t] == 0:
            if g["vector"] != e["vector"] or g["costs"] != e["costs"] or g["signed"] != e["signed"]:
                raise Violation(clause, "differs-from-serial", "design %d: parallel vector/costs/signed %r/%r/%r, serial "
                                "%r/%r/%r; schedule %r" % (t, g["vector"], g["costs"], g["signed"], e["vector"], e["costs"],
                                                           e["signed"], sched.trace))
        else:
            # the re-sampled vector is random: costs must belong to the stored vector
            if g["costs"] != _f(g["vector"]):
                raise Violation(clause, "costs-not-of-vector", "design %d: costs %r for vector %r" % (
                    t, g["costs"], g["vector"]))
    if rows is not None:
        byid = {}
        for rid, row in rows:
            if rid in byid:
                raise Violation(clause, "duplicate-row", "id %r stored twice" % (rid,))
            byid[rid] = row
        for t, g in enumerate(got):
            row = byid.get(g["id"])
            if row is None:
                raise Violation(clause, "row-missing", "design %d (id %r) has no row; schedule %r" % (t, g["id"], sched.trace))
            if [float(x) for x in row["vector"]] != g["vector"] or [float(x) for x in row["costs"]] != g["costs"] or \
                    row["state"] != "evaluated" or len(row["costs_signed"]) != len(g["signed"]):
                raise Violation(clause, "row-stale", "design %d: row %r, final in-memory %r" % (
                    t, {k: row[k] for k in ("vector", "costs", "costs_signed", "state")}, g))
        if len(byid) != len(got):
            raise Violation(clause, "row-count", "%d rows for %d designs" % (len(byid), len(got)))
    order = [t for t, gname, _ in sched.trace if gname == "objective-exit"]
    reordered = order != sorted(order)
    nt = sched.max_inflight >= 2 and reordered
    return {"nt": nt, "classes": ["inflight%d" % min(sched.max_inflight, 4), "reordered" if reordered else "in-order",
                                  "store" if case["store"] else "dummy",
                                  "burst" if any(k == "burst" for _, _, k in sched.trace) else "no-burst"] + (
                ["sql-gates"] if case.get("sqlgates") else []) + (["cpu-bound-model"] if case.get("cpu") else []) + (
                ["file-locked"] if case.get("busy") else []),
            "branching": list(sched.branching), "trace": [(t, g) for t, g, _ in sched.trace]}


# ---------------------------------------------------------------- bounded-exhaustive exploration of all schedules

CONFIGS = {"2x2": (2, 2), "3x2": (3, 2), "3x3": (3, 3), "2x2sql": (2, 2)}
PREFIX_DEPTH = 3


def subtree_items(tier):
    names = ["2x2", "3x2"] if tier == "quick" else ["2x2", "3x2", "3x3", "2x2sql"]
    for name in names:
        b, w = CONFIGS[name]
        for store in (False, True):
            if name in ("3x3", "2x2sql") and not store:
                continue
            for prefix in itertools.product(range(w), repeat=PREFIX_DEPTH):
                yield {"cfg": name, "store": store, "prefix": list(prefix)}


def check_subtree(case):
    """explore every schedule that starts with the given choice prefix (DFS by stateless re-execution)"""
    b, w = CONFIGS[case["cfg"]]
    base = {"b": b, "workers": w, "store": case["store"], "constraints": False, "fails": [0] * b, "default": 0,
            "seed": 1, "sqlgates": case["cfg"].endswith("sql")}
    prefix = list(case["prefix"])
    n = 0
    nt_keys = []
    choice = list(prefix)
    while True:
        c = dict(base, tokens=list(choice))
        info = check_schedule(c, "exhaustive")
        br = info["branching"]
        # validity of the fixed prefix
        if any(p >= br[i] for i, p in enumerate(prefix) if i < len(br)):
            return {"nt": False, "classes": ["invalid-prefix"], "n": 0}
        n += 1
        if info["nt"]:
            nt_keys.append({"cfg": case["cfg"], "store": case["store"], "trace": info["trace"]})
        full = (choice + [0] * len(br))[:len(br)]
        # next schedule in lexicographic order below the prefix
        i = len(br) - 1
        while i >= len(prefix) and full[i] + 1 >= br[i]:
            i -= 1
        if i < len(prefix):
            break
        choice = full[:i] + [full[i] + 1]
    return {"nt": bool(nt_keys), "classes": [case["cfg"], "store" if case["store"] else "dummy"], "n": n,
            "nt_keys": nt_keys}


# ---------------------------------------------------------------- whole runs: parallel run == serial run, any schedule

@st.composite
def run_schedules(draw):
    return {"alg": draw(st.sampled_from(["NSGAII", "NSGAII", "EpsMOEA", "OMOPSO", "SMPSO"])),
            "N": draw(st.integers(2, 4)), "G": draw(st.integers(1, 2)), "workers": draw(st.integers(2, 3)),
            "tokens": draw(st.lists(st.one_of(st.integers(0, 3), st.integers(0, 3), st.integers(0, 3), st.just("B")),
                                    min_size=1, max_size=40)),
            "store": draw(st.booleans()), "seed": draw(st.integers(0, 2 ** 31))}


def _run_alg(case, clause, parallel):
    from artap.datastore import SqliteDataStore
    from .c08 import algorithm_class
    sched = Scheduler(10 ** 9, case["workers"], case["tokens"], cycle=True) if parallel else None
    lock = threading.Lock()
    calls = {}

    def gate(name):
        if sched is not None:
            sched.gate(name)

    def ev(ind):
        gate("objective-entry")
        with lock:
            calls[id(ind)] = calls.get(id(ind), 0) + 1
        try:
            x = [float(v) for v in ind.vector]
            return [sum(v * v for v in x), sum((v - 1.0) ** 2 for v in x)]
        finally:
            gate("objective-exit")
    ps = [{"name": "a", "bounds": [-1.0, 2.0]}, {"name": "b", "bounds": [-1.0, 2.0]}]
    cs = [{"name": "f0", "criteria": "minimize"}, {"name": "f1", "criteria": "minimize"}]
    prob = make_problem(ps, cs, ev)
    db = None
    try:
        with guard(clause):
            if case["store"]:
                db = os.path.join(prob.working_dir, "run.sqlite")

                class GatedStore(SqliteDataStore):
                    def sync_individual(self, individual):
                        gate("sync-entry")
                        try:
                            return super().sync_individual(individual)
                        finally:
                            gate("sync-exit")
                prob.data_store = GatedStore(prob, database_name=db)
            alg = algorithm_class(case["alg"])(prob)
            alg.options["max_population_size"] = case["N"]
            alg.options["max_population_number"] = case["G"]
            if parallel:
                alg.options["max_processes"] = case["workers"]
                real_eval = alg.evaluator.job.evaluate
                real_par = alg.evaluator.evaluate_parallel

                def tracked(individual):
                    sched.task_start(id(individual))
                    try:
                        return real_eval(individual)
                    finally:
                        sched.task_end(id(individual))

                def batch(individuals):
                    sched.begin_batch(len(individuals))
                    return real_par(individuals)
                alg.evaluator.job.evaluate = tracked
                alg.evaluator.evaluate_parallel = batch
        seed_all(case["seed"])
        if parallel:
            def body():
                with guard(clause):
                    alg.run()
            run_scheduled(sched, body)
        else:
            with guard(clause):
                alg.run()
        recs = [{"pop": i.population_id, "vector": [float(x) for x in i.vector], "costs": [float(c) for c in i.costs],
                 "signed": [float(c) if not isinstance(c, bool) else c for c in i.costs_signed], "state": str(i.state),
                 "id": i.id, "calls": calls.get(id(i), 0)} for i in prob.individuals]
        rows = None
        if db:
            con_ = sqlite3.connect(db)
            rows = {r[0]: json.loads(r[1]) for r in con_.execute("SELECT id, individual FROM individuals")}
            con_.close()
        return recs, rows, sched, sum(calls.values())
    finally:
        dispose(prob)


def check_run_schedule(case):
    exp, _, _, exp_calls = _run_alg(case, "run-schedule", parallel=False)
    got, rows, sched, got_calls = _run_alg(case, "run-schedule", parallel=True)
    if len(got) != len(exp):
        raise Violation("run-schedule", "%s:recorded-count" % case["alg"], "%d individuals recorded in parallel, %d in serial" % (
            len(got), len(exp)))
    if got_calls != exp_calls:
        raise Violation("run-schedule", "%s:objective-calls" % case["alg"], "%d objective calls in parallel, %d in serial" % (
            got_calls, exp_calls))
    for k, (e, g) in enumerate(zip(exp, got)):
        for key in ("pop", "vector", "costs", "signed", "state"):
            if e[key] != g[key]:
                raise Violation("run-schedule", "%s:differs-from-serial:%s" % (case["alg"], key),
                                "%s N=%d G=%d workers=%d: recorded individual %d has %s %r, the serial run %r" % (
                                    case["alg"], case["N"], case["G"], case["workers"], k, key, g[key], e[key]))
    if rows is not None:
        for g in got:
            row = rows.get(g["id"])
            if row is None:
                raise Violation("run-schedule", "%s:row-missing" % case["alg"], "recorded individual id %r has no row" % (
                    g["id"],))
            if [float(x) for x in row["vector"]] != g["vector"] or [float(x) for x in row["costs"]] != g["costs"] \
                    or row["population_id"] != g["pop"]:
                raise Violation("run-schedule", "%s:row-stale" % case["alg"], "row %r vs final %r" % (
                    {k_: row[k_] for k_ in ("vector", "costs", "population_id")}, g))
    return {"nt": sched.max_inflight >= 2, "classes": [case["alg"], "inflight%d" % min(sched.max_inflight, 4),
                                                      "store" if case["store"] else "dummy"]}


# ---------------------------------------------------------------- a design that cannot be evaluated

class ModelCrashed(Exception):
    pass


@st.composite
def fatal_cases(draw):
    b = draw(st.integers(2, 7))
    return {"b": b, "workers": draw(st.integers(2, 4)), "bad": draw(st.integers(0, b - 1)),
            "kind": draw(st.sampled_from(["other", "other", "exhaust"])), "store": draw(st.booleans()),
            "seed": draw(st.integers(0, 2 ** 31))}


def check_fatal(case):
    """one design of the batch raises a non-transient exception (or fails five times in a row): serial evaluation hands
    that failure to the caller, and so must evaluation with worker threads under whatever schedule the OS produces -
    a batch must never come back looking finished while a design silently has no result"""
    from artap.individual import Individual
    from artap.algorithm import DummyAlgorithm
    from artap.datastore import SqliteDataStore
    b, bad = case["b"], case["bad"]

    def run(parallel):
        lock = threading.Lock()
        calls = {}

        def ev(ind):
            tag = ind.custom["tag"]
            with lock:
                calls[tag] = calls.get(tag, 0) + 1
            if tag == bad:
                if case["kind"] == "other":
                    raise ModelCrashed("the model cannot be evaluated for this design")
                raise RuntimeError("injected failure (every attempt)")
            return _f(ind.vector)
        ps = [{"name": "a", "bounds": [0.0, 2.0]}, {"name": "b", "bounds": [0.0, 2.0]}]
        cs = [{"name": "f0", "criteria": "minimize"}, {"name": "f1", "criteria": "maximize"}]
        prob = make_problem(ps, cs, ev)
        seed_all(case["seed"])
        try:
            if case["store"]:
                prob.data_store = SqliteDataStore(prob, database_name=os.path.join(prob.working_dir, "c07f.sqlite"))
            alg = DummyAlgorithm(prob)
            if parallel:
                alg.options["max_processes"] = case["workers"]
            inds = []
            for tag, v in enumerate(_vectors(b)):
                ind = Individual(list(v))
                ind.custom["tag"] = tag
                inds.append(ind)
            exc = None
            try:
                with guard("fatal", allowed=(ModelCrashed, RuntimeError)):
                    alg.evaluate(inds)
            except (ModelCrashed, RuntimeError) as e:
                exc = e
            return exc, [(str(i.state), [float(c) for c in i.costs], [float(x) for x in i.vector]) for i in inds], dict(calls)
        finally:
            dispose(prob)

    se, _, _ = run(False)
    want = ModelCrashed if case["kind"] == "other" else RuntimeError
    if not isinstance(se, want):
        raise HarnessError("serial evaluation did not raise %s: %r" % (want.__name__, se))
    pe, recs, calls = run(True)
    if pe is None:
        raise Violation("fatal", "failure-swallowed:%s" % case["kind"], "batch of %d on %d workers: design %d %s; serial "
                        "evaluation raises %s, the parallel one returned normally with states %r" % (
                            b, case["workers"], bad, "raises a non-transient exception" if case["kind"] == "other"
                            else "fails at every attempt", want.__name__, [r[0] for r in recs]))
    if not isinstance(pe, want):
        raise Violation("fatal", "other-exception:%s" % case["kind"], "parallel evaluation raised %r, serial %r" % (pe, se))
    for t, (state, costs, vec) in enumerate(recs):
        if t == bad:
            if "EVALUATED" in state:
                raise Violation("fatal", "bad-design-evaluated", "the failing design is marked evaluated")
        elif "EVALUATED" in state and costs != _f(vec):
            raise Violation("fatal", "costs-not-of-vector", "design %d: costs %r for vector %r" % (t, costs, vec))
    return {"nt": True, "classes": [case["kind"], "workers%d" % case["workers"], "store" if case["store"] else "dummy"]}


# ---------------------------------------------------------------- the caller's joblib context

@st.composite
def context_cases(draw):
    return {"b": draw(st.integers(2, 5)), "workers": draw(st.integers(2, 3)),
            "backend": draw(st.sampled_from(["loky", "loky", "multiprocessing", "threading"])),
            "seed": draw(st.integers(0, 2 ** 31))}


def check_context(case):
    """the batch is evaluated while the caller has selected a joblib backend of his own (as scikit-learn users do with
    `parallel_backend('loky')`): the designs handed in must still be the ones that get evaluated"""
    import joblib
    from artap.individual import Individual
    from artap.algorithm import DummyAlgorithm
    b = case["b"]
    lock = threading.Lock()
    calls = {}

    def ev(ind):
        with lock:
            calls[ind.custom["tag"]] = calls.get(ind.custom["tag"], 0) + 1
        return _f(ind.vector)
    ps = [{"name": "a", "bounds": [0.0, 2.0]}, {"name": "b", "bounds": [0.0, 2.0]}]
    cs = [{"name": "f0", "criteria": "minimize"}, {"name": "f1", "criteria": "maximize"}]
    prob = make_problem(ps, cs, ev)
    seed_all(case["seed"])
    try:
        alg = DummyAlgorithm(prob)
        alg.options["max_processes"] = case["workers"]
        inds = []
        for tag, v in enumerate(_vectors(b)):
            ind = Individual(list(v))
            ind.custom["tag"] = tag
            inds.append(ind)
        with guard("context"):
            with joblib.parallel_backend(case["backend"], n_jobs=case["workers"]):
                alg.evaluate(inds)
        for t, ind in enumerate(inds):
            if "EVALUATED" not in str(ind.state) or [float(c) for c in ind.costs] != _f(ind.vector) or calls.get(t, 0) != 1:
                raise Violation("context", "design-not-evaluated:%s" % case["backend"], "inside parallel_backend(%r) design "
                                "%d came back in state %s with costs %r after %d objective calls in this process" % (
                                    case["backend"], t, ind.state, list(ind.costs), calls.get(t, 0)))
    finally:
        dispose(prob)
    return {"nt": case["backend"] != "threading", "classes": [case["backend"], "workers%d" % case["workers"]]}


CLAUSES = [
    Clause("schedule", schedules(), check_schedule, quick=400, thorough=3000, quick_shards=4),
    Clause("run-schedule", run_schedules(), check_run_schedule, quick=80, thorough=600, quick_shards=4),
    Clause("fatal", fatal_cases(), check_fatal, quick=60, thorough=600, quick_shards=2),
    Clause("context", context_cases(), check_context, quick=8, thorough=60, quick_shards=2),
]
ENUMS = [
    Enum("all-schedules", subtree_items, check_subtree, tiers=("quick", "thorough"), chunk=1,
         exhaustive_note="every release order at gate granularity for (2 tasks, 2 workers), (3 tasks, 2 workers) "
                         "[both stores] and, in the thorough tier, (3 tasks, 3 workers) with the SQLite store; "
                         "evaluations counts schedules"),
]
