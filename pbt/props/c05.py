"""C05 - each design is evaluated exactly once and stored costs belong to its vector; sweep; scalar bridges."""
import math
from hypothesis import strategies as st

from ..core import Clause, Violation, guard, HarnessError
from .. import oracles as O
from ..harness import make_problem, dispose, seed_all, Patched

PROPERTY = "C05"
LEVEL = "exploration"
RULE = ("histories of 1..5 evaluate() calls over a harness problem (n=1..4, m=1..3, criteria minimise/maximise/absent, "
        "0..2 inequality constraints); the objective is a drawn finite table design->costs (values of magnitude up to "
        "1e9, on rounding boundaries k*1e-7 +- 5e-8, ints, numpy float64, returned as list or tuple) that logs every "
        "call; operations: new batch, mix of old and new designs, the same batch again; sweep over CustomGenerator "
        "and every DoE generator; scalar bridge: evaluate_scalar directly, ScipyOpt.run with scipy's minimize replaced "
        "by a scripted optimiser, real SciPy (Nelder-Mead, Powell) and NLopt (NELDERMEAD, BOBYQA) with the "
        "metamorphic relation queries(maximise f) == queries(minimise -f). Non-trivial = a history that re-submits an "
        "evaluated design, or a maximised objective, or a constraint-violating design, or a cost on a rounding "
        "boundary")
ASSUMPTIONS = ["objective/constraint functions are pure functions of the vector (tables)",
               "signed costs are compared through a rounding relation (within half a unit of the 7th decimal + float "
               "error and a multiple of 1e-7), accepting both half-even and decimal rounding",
               "finite costs with |c| <= 1e9"]

coord = st.one_of(st.integers(-3, 3).map(float), st.floats(-10, 10, allow_nan=False).map(lambda x: round(x, 4)))


@st.composite
def cost_value(draw):
    kind = draw(st.sampled_from(["small", "boundary", "wide", "int", "npfloat"]))
    if kind == "small":
        return {"k": kind, "v": draw(st.floats(-100, 100, allow_nan=False))}
    if kind == "boundary":
        k = draw(st.integers(-10 ** 6, 10 ** 6))
        s = draw(st.sampled_from([-1, 1, 0]))
        return {"k": kind, "v": k * 1e-7 + s * 5e-8}
    if kind == "wide":
        e = draw(st.floats(-12, 9))
        return {"k": kind, "v": draw(st.sampled_from([1.0, -1.0])) * 10.0 ** e}
    if kind == "int":
        return {"k": kind, "v": draw(st.integers(-1000, 1000))}
    return {"k": kind, "v": draw(st.floats(-1e3, 1e3, allow_nan=False))}


@st.composite
def problem_spec(draw):
    n = draw(st.integers(1, 4))
    m = draw(st.integers(1, 3))
    crit = [draw(st.sampled_from(["minimize", "maximize", None])) for _ in range(m)]
    ncon = draw(st.sampled_from([0, 0, 1, 2]))
    ret = draw(st.sampled_from(["list", "list", "tuple", "ndarray"]))   # ndarray: a float64 array, as vectorised models return
    return {"n": n, "m": m, "crit": crit, "ncon": ncon, "ret": ret}


@st.composite
def design(draw, spec):
    v = [draw(coord) for _ in range(spec["n"])]
    c = [draw(cost_value()) for _ in range(spec["m"])]
    g = [draw(st.sampled_from([-1.0, -1e-9, 0.0, 1e-9, 2.5, -3.0])) for _ in range(spec["ncon"])]
    return {"v": v, "c": c, "g": g}


@st.composite
def batch_history(draw):
    spec = draw(problem_spec())
    nops = draw(st.integers(1, 5))
    designs = []
    ops = []
    for _ in range(nops):
        kind = draw(st.sampled_from(["new", "new", "mix", "again"])) if ops else "new"
        if kind == "again":
            ops.append({"again": draw(st.integers(0, len(ops) - 1))})
            continue
        fresh = []
        for _ in range(draw(st.integers(1, 4))):
            d = draw(design(spec))
            if any(d["v"] == e["v"] for e in designs):
                continue
            designs.append(d)
            fresh.append(len(designs) - 1)
        old = []
        if kind == "mix" and designs:
            old = draw(st.lists(st.integers(0, len(designs) - 1), max_size=3))
        order = draw(st.permutations(old + fresh)) if (old or fresh) else []
        ops.append({"batch": list(order)})
    return {"spec": spec, "designs": designs, "ops": ops, "workers": draw(st.sampled_from([1, 1, 2, 3])),
            # one design whose first objective call fails transiently (it is re-sampled and retried): in an
            # unconstrained problem its feasibility marker must not differ from everybody else's
            "fail_once": draw(st.one_of(st.none(), st.none(), st.integers(0, 9)))}


def _cost_obj(c):
    import numpy as np
    if c["k"] == "npfloat":
        return np.float64(c["v"])
    return c["v"]


def _ret(out, how):
    if how == "tuple":
        return tuple(out)
    if how == "ndarray":
        import numpy as np
        return np.array([float(v) for v in out], dtype=float)
    return out


def _mk(spec, designs, log, glog=None, fail_key=None, retried=None):
    table = {tuple(d["v"]): d for d in designs}
    fired = []

    def ev(ind):
        key = tuple(ind.vector)
        if fail_key is not None and key == fail_key and not fired:
            fired.append(1)
            raise TimeoutError("injected transient failure")
        if key not in table and fired and retried is not None and not retried:
            # the re-sampled replacement of the failed design: a fresh vector the table does not know
            out = [0.5 + j for j in range(spec["m"])]
            retried.append((list(ind.vector), out))
            return _ret(out, spec["ret"])
        log.append(list(ind.vector))
        if key not in table:
            raise HarnessError("objective asked for an unknown design %r" % (key,))
        out = [_cost_obj(c) for c in table[key]["c"]]
        return _ret(out, spec["ret"])

    def con(x):
        key = tuple(x)
        if key not in table:
            raise HarnessError("constraints asked for an unknown design %r" % (key,))
        return list(table[key]["g"])
    ps = [{"name": "x%d" % i, "bounds": [-10.0, 10.0]} for i in range(spec["n"])]
    cs = []
    for j, c in enumerate(spec["crit"]):
        d = {"name": "f%d" % j}
        if c is not None:
            d["criteria"] = c
        cs.append(d)
    return make_problem(ps, cs, ev, constraints=con if spec["ncon"] else None)


def _signs(spec):
    return [-1 if c == "maximize" else 1 for c in spec["crit"]]


def _num(v):
    """float value of a stored cost, or None if it is not a real number (e.g. a nested tuple)"""
    try:
        if isinstance(v, (list, tuple, dict, str, bytes)) or getattr(v, "shape", ()) not in ((), None):
            return None
        return float(v)
    except (TypeError, ValueError):
        return None


def _check_individual(clause, ind, d, spec):
    from artap.individual import Individual
    m = spec["m"]
    if ind.state != Individual.State.EVALUATED:
        raise Violation(clause, "not-evaluated", "design %r left in state %r" % (d["v"], ind.state))
    if list(ind.vector) != list(d["v"]):
        raise Violation(clause, "vector-changed", "vector %r became %r" % (d["v"], ind.vector))
    exp = [c["v"] for c in d["c"]]
    try:
        got = list(ind.costs)
    except TypeError:
        got = [ind.costs]
    if len(got) != m or any(_num(a) is None or _num(a) != float(b) for a, b in zip(got, exp)):
        raise Violation(clause, "costs-not-objective-output:%s" % spec["ret"], "design %r: costs %r, objective returned "
                        "%r (as %s)" % (d["v"], got, exp, spec["ret"]))
    cs = ind.costs_signed
    if len(cs) != m + 1:
        raise Violation(clause, "signed-length", "costs_signed %r for m=%d" % (cs, m))
    for j, (s, c, sg) in enumerate(zip(cs[:-1], exp, _signs(spec))):
        if _num(s) is None or not O.round_relation_ok(_num(s), float(c), sg):
            raise Violation(clause, "signed-cost:%s" % ("max" if sg < 0 else "min"),
                            "objective %d cost %r criteria %r -> signed %r" % (j, c, spec["crit"][j], s))
    feas = all(g < 0 for g in d["g"]) if spec["ncon"] else None
    mk = cs[-1]
    if spec["ncon"]:
        if bool(mk) != (not feas) or mk not in (0, 1):
            raise Violation(clause, "marker", "constraints %r -> marker %r" % (d["g"], mk))
    return feas


def check_batches(case):
    from artap.individual import Individual
    from artap.algorithm import DummyAlgorithm
    from artap.operators import ParetoDominance
    spec, designs = case["spec"], case["designs"]
    log = []
    fo = case.get("fail_once")
    fail_idx = fo % len(designs) if (fo is not None and designs and spec["ncon"] == 0) else None
    retried = []
    prob = _mk(spec, designs, log, fail_key=tuple(designs[fail_idx]["v"]) if fail_idx is not None else None,
               retried=retried)
    classes = set()
    try:
        workers = case.get("workers", 1)
        with guard("batches"):
            alg = DummyAlgorithm(prob)
            if workers > 1:
                alg.options["max_processes"] = workers      # joblib threads: every design still exactly once
        inds = {}
        done = set()
        batches = []
        for op in case["ops"]:
            if "again" in op:
                batch = batches[op["again"] % len(batches)] if batches else []
                classes.add("same-batch-again")
            else:
                batch = op["batch"]
            batches.append(batch)
            if workers > 1:
                batch = list(dict.fromkeys(batch))   # no caller hands the same object twice to concurrent workers
            objs = []
            for i in batch:
                if i not in inds:
                    inds[i] = Individual(list(designs[i]["v"]))
                objs.append(inds[i])
            before = len(log)
            if any(i in done for i in batch):
                classes.add("resubmits-evaluated")
            # a design may legitimately appear twice in one batch (same object): still one call
            with guard("batches"):
                alg.evaluate(objs)
            new = [i for i in dict.fromkeys(batch) if i not in done and not (i == fail_idx and retried)]
            calls = log[before:]
            if sorted(map(tuple, calls)) != sorted(tuple(designs[i]["v"]) for i in new):
                kind = "evaluated-twice" if len(calls) > len(new) else "not-evaluated"
                raise Violation("batches", "call-log:%s" % kind, "batch %r (already evaluated: %r) caused objective calls "
                                "%r" % ([designs[i]["v"] for i in batch], [designs[i]["v"] for i in batch if i in done],
                                        calls))
            if workers == 1 and calls != [designs[i]["v"] for i in new]:
                raise Violation("batches", "call-order", "calls %r, batch order %r" % (calls, [designs[i]["v"] for i in new]))
            done.update(batch)
            for i in done:
                if i == fail_idx and retried:
                    continue          # checked separately below: its vector was re-sampled
                _check_individual("batches", inds[i], designs[i], spec)
        if fail_idx is not None and retried and fail_idx in done:
            r = inds[fail_idx]
            classes.add("retried-design")
            if r.state != Individual.State.EVALUATED or [float(x) for x in r.vector] != [float(x) for x in retried[0][0]] \
                    or [_num(c) for c in r.costs] != [float(c) for c in retried[0][1]]:
                raise Violation("batches", "retried-design-data", "retried design: vector %r costs %r state %r, the "
                                "successful call used %r -> %r" % (r.vector, r.costs, r.state, retried[0][0], retried[0][1]))
            others = [inds[i] for i in done if i != fail_idx]
            for o in others:
                if bool(o.costs_signed[-1]) != bool(r.costs_signed[-1]):
                    raise Violation("batches", "retried-design-marker", "unconstrained problem: the design that was "
                                    "retried after a transient failure carries marker %r, the others %r" % (
                                        r.costs_signed[-1], o.costs_signed[-1]))
        # marker semantics through the comparator
        if spec["ncon"]:
            cmp_ = ParetoDominance()
            ids = sorted(done)
            for a in ids:
                for b in ids:
                    fa = all(g < 0 for g in designs[a]["g"])
                    fb = all(g < 0 for g in designs[b]["g"])
                    if fa and not fb:
                        with guard("batches"):
                            v = cmp_.compare(inds[a].costs_signed, inds[b].costs_signed)
                        if v != 1:
                            raise Violation("batches", "feasible-not-preferred", "feasible %r vs violating %r -> %r" % (
                                inds[a].costs_signed, inds[b].costs_signed, v))
                        classes.add("feasible-vs-violating")
    finally:
        dispose(prob)
    if any(c == "maximize" for c in spec["crit"]):
        classes.add("maximised")
    classes.add("workers%d" % case.get("workers", 1))
    if any(c["k"] == "boundary" for d in designs for c in d["c"]):
        classes.add("rounding-boundary")
    if spec["ncon"] and any(not all(g < 0 for g in d["g"]) for d in designs):
        classes.add("violating-design")
    nt = bool(classes & {"resubmits-evaluated", "maximised", "violating-design", "rounding-boundary"})
    return {"nt": nt, "classes": sorted(classes) or ["plain"]}


# ---------------------------------------------------------------- sweep

@st.composite
def sweep_cases(draw):
    spec = draw(problem_spec())
    kind = draw(st.sampled_from(["custom", "custom", "random", "lhs", "halton", "uniform", "fullfact", "pb", "bb"]))
    if kind == "bb":
        spec["n"] = max(spec["n"], 3)
    vectors = None
    if kind == "custom":
        vectors = []
        for _ in range(draw(st.integers(1, 6))):
            v = [draw(coord) for _ in range(spec["n"])]
            if v not in vectors:
                vectors.append(v)
    # long sweeps too: lengths around the algorithms' default block/population size (100) and its multiples
    number = draw(st.one_of(st.integers(1, 6), st.integers(1, 6), st.sampled_from([99, 100, 101, 102, 199, 200, 201])))
    if kind == "custom" and draw(st.integers(0, 3)) == 0:
        cnt = draw(st.sampled_from([99, 100, 101, 102, 200, 201]))
        vectors = [[(i * 0.01) % 7.0 + j for j in range(spec["n"])] for i in range(cnt)]
    return {"spec": spec, "kind": kind, "vectors": vectors, "number": number,
            "k": draw(st.integers(2, 3)), "seed": draw(st.integers(0, 2 ** 31))}


def check_sweep(case):
    import numpy as np
    import artap.operators as ops
    from artap.algorithm_sweep import SweepAlgorithm
    from .c08 import make_generator, SeededRS
    spec = case["spec"]
    n, m = spec["n"], spec["m"]
    log = []
    sg = _signs(spec)

    def f(x):
        return [sum((j + 1) * xi for xi in x) + 0.25 * j for j in range(m)]

    def ev(ind):
        log.append(list(ind.vector))
        return f(ind.vector)
    ps = [{"name": "x%d" % i, "bounds": [-10.0, 10.0]} for i in range(n)]
    cs = []
    for j, c in enumerate(spec["crit"]):
        d = {"name": "f%d" % j}
        if c is not None:
            d["criteria"] = c
        cs.append(d)
    prob = make_problem(ps, cs, ev)
    seed_all(case["seed"])
    try:
        with Patched((np.random, "RandomState", SeededRS(case["seed"]))):
            with guard("sweep"):
                if case["kind"] == "custom":
                    gen = ops.CustomGenerator(prob.parameters)
                    gen.init([list(v) for v in case["vectors"]])
                else:
                    gen = make_generator(case["kind"], prob.parameters, case["number"], case["k"])
                produced = []
                real_generate = gen.generate

                def spy():
                    out = real_generate()
                    produced.append([list(map(float, v)) for v in out])
                    return out
                gen.generate = spy
                alg = SweepAlgorithm(prob, generator=gen)
                alg.run()
        if len(produced) != 1:
            raise Violation("sweep", "generate-calls", "generator asked %d times" % len(produced))
        want = produced[0]
        if case["kind"] == "custom" and want != [list(map(float, v)) for v in case["vectors"]]:
            raise Violation("sweep", "custom-generator", "CustomGenerator returned %r for %r" % (want, case["vectors"]))
        rec = [list(map(float, i.vector)) for i in prob.individuals]
        if rec != want:
            raise Violation("sweep", "recorded-differs", "generator %r, recorded %r" % (want, rec))
        dup = len(set(map(tuple, want))) != len(want)
        if [list(map(float, v)) for v in log] != want:
            raise Violation("sweep", "call-log-differs", "generator %r, objective calls %r" % (want, log))
        from artap.individual import Individual
        for ind in prob.individuals:
            if ind.state != Individual.State.EVALUATED or list(ind.costs) != f(ind.vector):
                raise Violation("sweep", "costs", "design %r state %r costs %r" % (ind.vector, ind.state, ind.costs))
            for s, c, g in zip(ind.costs_signed[:-1], ind.costs, sg):
                if not O.round_relation_ok(float(s), float(c), g):
                    raise Violation("sweep", "signed-cost", "cost %r -> %r" % (c, s))
    finally:
        dispose(prob)
    return {"nt": len(want) >= 2, "classes": [case["kind"]]}


# ---------------------------------------------------------------- scalar bridge

@st.composite
def scalar_cases(draw):
    n = draw(st.integers(1, 3))
    crit = draw(st.sampled_from(["minimize", "maximize", None]))
    pts = [[draw(coord) for _ in range(n)] for _ in range(draw(st.integers(1, 6)))]
    costs = [draw(cost_value()) for _ in pts]
    as_array = draw(st.booleans())
    return {"n": n, "crit": crit, "pts": pts, "costs": costs, "array": as_array,
            "via": draw(st.sampled_from(["direct", "direct", "scipy-scripted", "scipy-scripted", "direct-worstcase"]))}


def check_scalar(case):
    import numpy as np
    from artap.algorithm import DummyAlgorithm
    from artap.individual import Individual
    import artap.algorithm_scipy as asci
    n, crit = case["n"], case["crit"]
    sign = -1 if crit == "maximize" else 1
    log = []
    seq = [_cost_obj(c) for c in case["costs"]]

    def ev(ind):
        k = len(log)
        log.append(list(ind.vector))
        return [seq[k]]
    if case["via"] == "direct-worstcase":
        return _check_scalar_worstcase(case)
    ps = [{"name": "x%d" % i, "bounds": [-10.0, 10.0], "initial_value": 0.5} for i in range(n)]
    c = {"name": "f"}
    if crit is not None:
        c["criteria"] = crit
    prob = make_problem(ps, [c], ev)
    returned = []
    try:
        if case["via"] == "direct":
            with guard("scalar"):
                alg = DummyAlgorithm(prob)
                for p in case["pts"]:
                    x = np.array(p) if case["array"] else list(p)
                    returned.append(alg.evaluator.evaluate_scalar(x))
        else:
            def fake_minimize(fun, x0, *a, **kw):
                for p in case["pts"]:
                    returned.append(fun(np.array(p) if case["array"] else list(p)))
                return None
            with Patched((asci, "minimize", fake_minimize)):
                with guard("scalar"):
                    alg = asci.ScipyOpt(prob)
                    alg.run()
        if log != [list(map(float, p)) for p in case["pts"]]:
            raise Violation("scalar", "query-log", "optimiser queried %r, objective saw %r" % (case["pts"], log))
        if len(prob.individuals) != len(case["pts"]):
            raise Violation("scalar", "recorded-count", "%d points queried, %d individuals recorded" % (
                len(case["pts"]), len(prob.individuals)))
        for k, (p, ind) in enumerate(zip(case["pts"], prob.individuals)):
            if list(map(float, ind.vector)) != list(map(float, p)):
                raise Violation("scalar", "recorded-vector", "query %r recorded as %r" % (p, ind.vector))
            tc = case["costs"][k]["v"]
            if len(ind.costs) != 1 or float(ind.costs[0]) != float(tc):
                raise Violation("scalar", "recorded-cost", "query %r true cost %r recorded %r" % (p, tc, ind.costs))
            if ind.state != Individual.State.EVALUATED:
                raise Violation("scalar", "state", "recorded individual in state %r" % (ind.state,))
            if not O.round_relation_ok(float(returned[k]), float(tc), sign):
                raise Violation("scalar", "optimiser-value:%s" % ("max" if sign < 0 else "min"),
                                "true cost %r criteria %r but the optimiser received %r" % (tc, crit, returned[k]))
    finally:
        dispose(prob)
    return {"nt": crit == "maximize" or any(c["k"] == "boundary" for c in case["costs"]),
            "classes": [case["via"], str(crit), "ndarray" if case["array"] else "list"]}


def _check_scalar_worstcase(case):
    """evaluate_scalar of the worst-case evaluator: the queried point and each of its 2n neighbours is evaluated
    exactly once (an already evaluated design is never sent to the objective again)"""
    from artap.algorithm import EvaluatorType
    from artap.algorithm_genetic import GeneticAlgorithm
    n = case["n"]
    log = []

    def ev(ind):
        log.append(tuple(float(v) for v in ind.vector))
        return [sum(float(v) for v in ind.vector)]
    ps = [{"name": "x%d" % i, "bounds": [-10.0, 10.0], "tol": 0.25} for i in range(n)]
    prob = make_problem(ps, [{"name": "f", "criteria": "minimize"}], ev)
    try:
        with guard("scalar"):
            alg = GeneticAlgorithm(prob, evaluator_type=EvaluatorType.WORST_CASE)
        for p in case["pts"]:
            before = len(log)
            with guard("scalar"):
                alg.evaluator.evaluate_scalar([float(v) for v in p])
            calls = log[before:]
            key = tuple(float(v) for v in p)
            if calls.count(key) != 1:
                raise Violation("scalar", "worst-case-scalar:point-evaluated-%d-times" % calls.count(key),
                                "evaluate_scalar(%r) under the worst-case evaluator called the objective %d times for "
                                "the queried point (calls %r)" % (p, calls.count(key), calls))
            if len(calls) != 1 + 2 * n:
                raise Violation("scalar", "worst-case-scalar:call-count", "%d objective calls, expected %d" % (
                    len(calls), 1 + 2 * n))
    finally:
        dispose(prob)
    return {"nt": True, "classes": ["direct-worstcase"]}


# ---------------------------------------------------------------- real optimisers, metamorphic max f == min -f

@st.composite
def real_cases(draw):
    n = draw(st.integers(1, 3))
    return {"n": n, "target": [draw(st.floats(-2, 2).map(lambda x: round(x, 2))) for _ in range(n)],
            "w": [draw(st.sampled_from([1.0, 2.0, 0.5])) for _ in range(n)],
            "x0": [draw(st.floats(-3, 3).map(lambda x: round(x, 2))) for _ in range(n)],
            "opt": draw(st.sampled_from(["Nelder-Mead", "Powell", "LN_NELDERMEAD", "LN_BOBYQA"])),
            "iters": draw(st.integers(3, 25))}


def _run_real(case, maximise):
    import artap.algorithm_scipy as asci
    n = case["n"]
    log = []

    def f(x):
        return sum(w * (xi - t) ** 2 for w, xi, t in zip(case["w"], x, case["target"])) + 1.0

    outs = []

    def ev(ind):
        log.append([float(v) for v in ind.vector])
        v = f([float(t) for t in ind.vector])
        outs.append(-v if maximise else v)
        return [-v] if maximise else [v]
    ps = [{"name": "x%d" % i, "bounds": [-5.0, 5.0], "initial_value": case["x0"][i]} for i in range(n)]
    prob = make_problem(ps, [{"name": "f", "criteria": "maximize" if maximise else "minimize"}], ev)
    try:
        with guard("real-optimisers"):
            if case["opt"] in ("Nelder-Mead", "Powell"):
                alg = asci.ScipyOpt(prob)
                alg.options["algorithm"] = case["opt"]
                alg.options["n_iterations"] = case["iters"]
                alg.options["verbose_level"] = 0
                alg.run()
            else:
                import nlopt
                import artap.algorithm_nlopt as anl
                alg = anl.NLopt(prob)
                alg.options["algorithm"] = getattr(anl, case["opt"])
                alg.options["n_iterations"] = case["iters"]
                alg.options["verbose_level"] = 0
                try:
                    alg.run()
                except (nlopt.RoundoffLimited, nlopt.ForcedStop):
                    pass    # the optimiser library gave up (BOBYQA on a 1-D quadratic); what was queried so far
                            # must still have been recorded faithfully, which is all the property claims
        rec = [([float(v) for v in i.vector], [float(c) for c in i.costs]) for i in prob.individuals]
    finally:
        dispose(prob)
    return log, rec, outs


def check_real(case):
    log_min, rec_min, out_min = _run_real(case, False)
    log_max, rec_max, out_max = _run_real(case, True)
    if not log_min:
        raise Violation("real-optimisers", "no-queries", "%s made no objective calls" % case["opt"])
    for log, rec, outs in ((log_min, rec_min, out_min), (log_max, rec_max, out_max)):
        if [r[0] for r in rec] != log:
            raise Violation("real-optimisers", "recorded-differs:%s" % case["opt"],
                            "%d queries, %d recorded; first difference at %r" % (
                                len(log), len(rec), next((i for i, (a, b) in enumerate(zip(log, [r[0] for r in rec]))
                                                          if a != b), min(len(log), len(rec)))))
        for (x, c), o in zip(rec, outs):
            if c != [o]:
                raise Violation("real-optimisers", "recorded-cost:%s" % case["opt"],
                                "x=%r recorded cost %r, the objective returned %r" % (x, c, o))
    if log_min != log_max:
        k = next((i for i, (a, b) in enumerate(zip(log_min, log_max)) if a != b), min(len(log_min), len(log_max)))
        raise Violation("real-optimisers", "maximise-not-mirrored:%s" % case["opt"],
                        "%s: minimising f and maximising -f diverge at query %d (%r vs %r)" % (
                            case["opt"], k, log_min[k:k + 1], log_max[k:k + 1]))
    return {"nt": len(log_min) >= 3, "classes": [case["opt"]]}


CLAUSES = [
    Clause("batches", batch_history(), check_batches, quick=800, thorough=5000, quick_shards=4),
    Clause("sweep", sweep_cases(), check_sweep, quick=200, thorough=2000, quick_shards=2),
    Clause("scalar", scalar_cases(), check_scalar, quick=300, thorough=3000, quick_shards=2),
    Clause("real-optimisers", real_cases(), check_real, quick=60, thorough=500, quick_shards=2),
]
