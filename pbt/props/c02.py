"""C02 - non-dominated sorting assigns every individual its true Pareto rank."""
from hypothesis import strategies as st

from ..core import Clause, Enum, Violation, guard
from .. import oracles as O
from ..harness import params, npcosts

PROPERTY = "C02"
LEVEL = "exploration"
RULE = ("populations of 1..24 (thorough ..60) distinct Individual objects, m=1..4, cost vectors from grids {0..k} "
        "(duplicates, chains), structured shapes (strict chain, antichain, all identical, layered) or separated "
        "floats, markers mixed; the list order is a drawn permutation and the sort is repeated on a second order. "
        "Oracle: rank = 1 if undominated else 1 + max rank of dominators. Non-trivial = >= 2 fronts and (a duplicated "
        "vector, or mixed feasibility, or a domination chain of length >= 3)")
ASSUMPTIONS = ["each Individual object occurs once in the list (every caller passes distinct objects)",
               "costs_signed carry the marker as last entry, as Individual.calc_signed_costs writes them"]

MARK = st.sampled_from([False, False, True, True, 0.5])


@st.composite
def population(draw, max_n=24):
    m = draw(st.integers(1, 4))
    shape = draw(st.sampled_from(["grid", "grid", "grid", "chain", "antichain", "identical", "layered", "floats",
                                  "near-chain", "penalty"]))
    n = draw(st.integers(1, max_n))
    mk_mode = draw(st.sampled_from(["same", "same", "mixed"]))
    base_mark = draw(MARK)
    vs = []
    if shape == "grid":
        k = draw(st.sampled_from([1, 2, 4]))
        for _ in range(n):
            vs.append([float(draw(st.integers(0, k))) for _ in range(m)])
    elif shape == "penalty":
        # failed simulations carry an infinite cost in some objective (several members in the same one)
        m = max(m, 2)
        for _ in range(n):
            vs.append([draw(st.sampled_from([0.0, 1.0, 2.0, 3.0, float("inf"), float("inf")])) for _ in range(m)])
    elif shape == "chain":
        for i in range(n):
            vs.append([float(i)] * m)
    elif shape == "near-chain":
        # a strict chain whose neighbours differ by 1e-10 relative (costs like 1000.0000001, 1000.0000002, ...)
        base = draw(st.sampled_from([1000.0, 1.0, 2.4e9]))
        for i in range(n):
            vs.append([base * (1.0 + 1e-10 * i)] * m)
    elif shape == "antichain":
        m = max(m, 2)
        for i in range(n):
            vs.append([float(i), float(-i)] + [0.0] * (m - 2))
    elif shape == "identical":
        v = [float(draw(st.integers(0, 3))) for _ in range(m)]
        vs = [list(v) for _ in range(n)]
    elif shape == "layered":
        m = max(m, 2)
        width = draw(st.integers(1, 4))
        for i in range(n):
            layer, pos = divmod(i, width)
            vs.append([float(layer + pos), float(layer + width - pos)] + [float(layer)] * (m - 2))
    else:
        for _ in range(n):
            vs.append([draw(st.floats(-1e3, 1e3, allow_nan=False).map(lambda x: round(x, 3))) for _ in range(m)])
    costs = []
    for v in vs:
        mk = base_mark if mk_mode == "same" else draw(MARK)
        costs.append(v + [mk])
    order = draw(st.permutations(list(range(len(costs)))))
    order2 = draw(st.permutations(list(range(len(costs)))))
    return {"costs": [costs[i] for i in order], "order2": list(order2), "np": draw(st.booleans())}


def check_sort(case):
    from artap.individual import Individual
    from artap.operators import TournamentSelector
    costs = case["costs"]
    n = len(costs)
    exp = O.pareto_ranks(costs)

    def run(order):
        with guard("rank"):
            sel = TournamentSelector(params([(0.0, 1.0)]))
            pop = []
            for i in order:
                ind = Individual([float(i)])
                ind.costs_signed = npcosts(costs[i], case.get("np"))
                pop.append(ind)
            sel.fast_nondominated_sorting(pop)
        return {i: ind.features.get("front_number") for i, ind in zip(order, pop)}

    got = run(list(range(n)))
    for i in range(n):
        g = got[i]
        if g is None:
            raise Violation("rank", "unranked", "individual %d with costs %r left unranked in %r" % (i, costs[i], costs))
        if isinstance(g, bool) or not isinstance(g, int):
            raise Violation("rank", "rank-type", "front_number %r is not an int" % (g,))
    for i in range(n):
        if got[i] != exp[i]:
            # name the broken consequence
            if exp[i] == 1 or got[i] == 1:
                b = "front1-wrong"
            elif any(got[j] == got[i] and O.verdict(costs[j], costs[i]) in (1, 2) for j in range(n) if j != i):
                b = "domination-inside-front"
            else:
                b = "rank-wrong"
            raise Violation("rank", b, "costs %r: individual %d got front %r, true rank %r (all got=%r exp=%r)" % (
                costs, i, got[i], exp[i], [got[k] for k in range(n)], exp))
    # the sorter is called once per generation on lists that share objects: sorting the same objects again (other
    # order) and then a sub-population of them must give the ranks of *that* list, nothing left over from before
    with guard("rank"):
        sel = TournamentSelector(params([(0.0, 1.0)]))
        objs = []
        for i in range(n):
            ind = Individual([float(i)])
            ind.costs_signed = npcosts(costs[i], case.get("np"))
            objs.append(ind)
        sel.fast_nondominated_sorting([objs[i] for i in case["order2"]])
        sel.fast_nondominated_sorting(list(objs))
        again = [o.features.get("front_number") for o in objs]
        # one cost list is changed IN PLACE between two sorts (the robust evaluator does that): the next sort must see it
        if n >= 2:
            objs[0].costs_signed[0] = objs[0].costs_signed[0] + 1.5
            sel.fast_nondominated_sorting(list(objs))
            edited = [o.features.get("front_number") for o in objs]
            exp_edit = O.pareto_ranks([list(o.costs_signed) for o in objs])
            objs[0].costs_signed[0] = costs[0][0]
        else:
            edited = exp_edit = None
        half = [i for i in case["order2"] if i % 2 == 0]
        sel.fast_nondominated_sorting([objs[i] for i in half])
        sub = [objs[i].features.get("front_number") for i in half]
        # new individuals built from an already sorted template with `features.copy()` (the idiom of the repository's
        # own operator tests): the copies share the template's bookkeeping lists until the sorter replaces them
        clones = []
        for i in range(n):
            ind = Individual([float(i)])
            ind.features = objs[0].features.copy()
            ind.costs_signed = npcosts(costs[i], case.get("np"))
            clones.append(ind)
        sel.fast_nondominated_sorting(list(clones))
        cloned = [o.features.get("front_number") for o in clones]
    if cloned != exp:
        raise Violation("rank", "sort-of-feature-copies", "individuals whose features were copied (dict.copy) from a sorted "
                        "individual got %r, true ranks %r (%r)" % (cloned, exp, costs))
    if edited != exp_edit:
        raise Violation("rank", "resort-after-inplace-edit", "after changing one cost in place the same selector gave %r, "
                        "true ranks %r" % (edited, exp_edit))
    if again != exp:
        raise Violation("rank", "resort-same-objects", "sorting the same objects a second time gave %r, true ranks %r (%r)" % (
            again, exp, costs))
    exp_sub = O.pareto_ranks([costs[i] for i in half]) if half else []
    if sub != exp_sub:
        raise Violation("rank", "resort-subpopulation", "sorting a sub-population of already sorted objects gave %r, true "
                        "ranks %r (costs %r)" % (sub, exp_sub, [costs[i] for i in half]))
    got2 = run(case["order2"])
    if any(got2[i] != got[i] for i in range(n)):
        raise Violation("rank", "order-dependent", "ranks differ between two input orders for %r: %r vs %r" % (
            costs, [got[k] for k in range(n)], [got2[k] for k in range(n)]))
    fronts = max(exp)
    dup = len(set(map(tuple, costs))) < n
    mixed = len(set(bool(c[-1]) for c in costs)) > 1
    nt = fronts >= 2 and (dup or mixed or fronts >= 3)
    return {"nt": nt, "classes": ["fronts%d" % min(fronts, 5), "dup" if dup else "nodup",
                                  "mixed-feas" if mixed else "same-feas", "n>12" if n > 12 else "n<=12"]}


def simplify(case):
    """drop one individual at a time; then try the identity as second order"""
    costs = case["costs"]
    n = len(costs)
    for i in range(n):
        keep = [k for k in range(n) if k != i]
        remap = {k: j for j, k in enumerate(keep)}
        yield dict(case, costs=[costs[k] for k in keep], order2=[remap[k] for k in case["order2"] if k in remap])
    if case["order2"] != list(range(n)):
        yield dict(case, order2=list(range(n)))
    if case.get("np"):
        yield dict(case, np=False)


def decode_bytes(fdp):
    """atheris decoder: every individual is m+1 bytes (grid coordinates 0..4 and a marker)"""
    head = fdp.ConsumeIntInRange(0, 255)
    m = 1 + head % 4
    width = [2, 3, 5][(head >> 2) % 3]
    costs = []
    while fdp.remaining_bytes() >= m + 1 and len(costs) < 48:
        v = [float(fdp.ConsumeIntInRange(0, 255) % width) for _ in range(m)]
        mk = [False, False, False, True, True, 0.5][fdp.ConsumeIntInRange(0, 255) % 6]
        costs.append(v + [mk])
    if not costs:
        return None
    n = len(costs)
    return {"costs": costs, "order2": list(range(n - 1, -1, -1))}


def big_items(tier):
    """populations beyond 256 members (NSGA-II sorts 2N individuals): long chains, layered fronts, seeded clouds"""
    import random as _r
    for n in ((257, 300) if tier == "quick" else (257, 258, 300, 513, 700)):
        yield {"costs": [[float(i), float(i), False] for i in range(n)], "order2": list(range(n - 1, -1, -1))}
        yield {"costs": [[float(i // 3 + i % 3), float(i // 3 + 2 - i % 3), False] for i in range(n)],
               "order2": list(range(n - 1, -1, -1))}
        rng = _r.Random(n)
        yield {"costs": [[float(rng.randint(0, 40)), float(rng.randint(0, 40)), rng.random() < 0.1] for _ in range(n)],
               "order2": list(range(n - 1, -1, -1))}


FUZZ_DECODERS = {"rank": decode_bytes}
FUZZ = ["rank"]      # clauses that get an atheris campaign in the thorough tier

CLAUSES = [
    Clause("rank", population(24), check_sort, quick=3000, thorough=12000, quick_shards=4, simplify=simplify),
    Clause("rank-large", population(60), check_sort, quick=300, thorough=3000, quick_shards=2, simplify=simplify),
]
ENUMS = [
    Enum("rank-beyond-256", big_items, check_sort, tiers=("quick", "thorough"), chunk=1,
         exhaustive_note="fixed populations of 257..300 (thorough ..700) members: a total chain, layered fronts of three, "
                         "a seeded grid cloud with infeasible members"),
]
