"""C19 - surrogate wrapper returns true values unless predicting; exact accounting (model-based histories)."""
from hypothesis import strategies as st

from ..core import Clause, Violation, guard
from ..harness import dispose

PROPERTY = "C19"
LEVEL = "exploration"
RULE = ("histories of up to 40 operations against model counters: request(vector, hook decision decline/value), "
        "set_trained(bool), request through Job.evaluate, attach/remove the predict hook on the problem instance, "
        "change train_step; surrogate = SurrogateModelScikit with a stub regressor (the "
        "real train() decides `trained`) or a minimal SurrogateModelPredict subclass, train_step in {-1,1,2,3,10}, "
        "problems with and without a predict hook; the pass-through SurrogateModelEval as its own machine. "
        "Non-trivial = a history with >= 1 prediction, >= 1 declined prediction after training and >= 1 retraining")
ASSUMPTIONS = ["the regressor is a stub recording fit() (score() returns 1.0); sklearn itself is not under test",
               "objective values are fresh list objects so that 'returned unchanged' can be checked by identity"]


@st.composite
def histories(draw):
    kind = draw(st.sampled_from(["scikit", "scikit", "minimal", "scikit-default"]))
    has_hook = draw(st.sampled_from([True, True, True, False]))
    ts = draw(st.sampled_from([-1, 1, 2, 3, 10]))
    ops = []
    for _ in range(draw(st.integers(1, 40))):
        o = draw(st.sampled_from(["req", "req", "req", "req", "req", "req", "job", "job", "trained", "hook", "ts"]))
        if o == "trained":
            ops.append({"op": "trained", "v": draw(st.booleans())})
        elif o == "hook":
            # the predict hook is attached to / removed from the problem *instance* while requests are being served
            ops.append({"op": "hook", "v": draw(st.booleans())})
        elif o == "ts":
            # train_step is a plain attribute and is changed between requests (the shipped SMT example does so)
            ops.append({"op": "ts", "v": draw(st.sampled_from([-1, 1, 2, 3, 4, 5]))})
        else:
            ops.append({"op": o, "x": [draw(st.integers(-5, 5)) / 2.0, draw(st.integers(-5, 5)) / 2.0],
                        # "a value" includes falsy ones: an empty list, zero
                        "hook": draw(st.sampled_from(["decline", "value", "value", "empty-list", "zero-list"]))})
    if kind == "scikit-default":
        ops = ops[:12]          # the real Gaussian-process regressor is fitted: keep these histories short
    return {"kind": kind, "hook": has_hook, "train_step": ts, "ops": ops,
            # samples loaded into the training set before the first request (add_data, as after reading an earlier sweep)
            "preload": draw(st.sampled_from([0, 0, 1, 2, 3, 7])),
            # the statistics option switched off (only for the minimal subclass: the Scikit wrapper's train() needs it)
            "eval_stats": not (kind == "minimal" and draw(st.booleans())),
            # an inequality constraint g(x) = x0 (violated for x0 >= 0): Job computes the feasibility flag from it
            "constrained": draw(st.booleans())}


class Stub:
    def __init__(self):
        self.fits = []

    def fit(self, x, y):
        self.fits.append((len(x), len(y)))
        return self

    def score(self, x, y):
        return 1.0

    def predict(self, x, *a, **kw):
        return [[0.0]]


def check_history(case):
    from artap.problem import Problem
    from artap.individual import Individual
    from artap.job import Job
    from artap.surrogate import SurrogateModelPredict
    from artap.surrogate_scikit import SurrogateModelScikit
    log = []
    hook_log = []
    state = {"decision": None, "pred_obj": None}

    class P(Problem):
        def set(self, **kw):
            self.parameters = [{"name": "a", "bounds": [-5, 5]}, {"name": "b", "bounds": [-5, 5]}]
            self.costs = [{"name": "f"}]

        def evaluate(self, individual):
            val = [float(individual.vector[0]) * 2.0 + float(individual.vector[1])]
            log.append((list(individual.vector), val))
            return val

    if case.get("constrained"):
        P.evaluate_inequality_constraints = lambda self, x: [float(x[0])]

    def hook_fn(individual):
        hook_log.append(list(individual.vector))
        d = state["decision"]
        if d == "decline":
            return None
        # always a cost *list*, like the objective's return value (a bare number would not survive Job.evaluate)
        state["pred_obj"] = {"value": [123.0 + len(hook_log)], "empty-list": [], "zero-list": [0.0]}[d]
        return state["pred_obj"]

    class PH(P):
        def predict(self, individual):
            return hook_fn(individual)

    trains = []

    class Minimal(SurrogateModelPredict):
        def __init__(self, problem):
            super().__init__(problem)
            self.train_step = 10

        def train(self):
            trains.append(len(self.x_data))
            self.trained = True

        def predict(self, x, *a):
            return None

        def init_default_regressor(self):
            self.regressor = object()

    prob = (PH if case["hook"] else P)()
    try:
        with guard("predicting"):
            if case["kind"] == "scikit-default":
                sur = SurrogateModelScikit(prob)     # regressor None: the default Gaussian process is created on demand
                stub = None
                real_train = sur.train

                def counting_train():
                    trains.append(len(sur.x_data))
                    return real_train()
                sur.train = counting_train
            elif case["kind"] == "scikit":
                sur = SurrogateModelScikit(prob)
                stub = Stub()
                sur.regressor = stub
            else:
                sur = Minimal(prob)
                stub = None
            sur.train_step = case["train_step"]
            if not case.get("eval_stats", True):
                sur.eval_stats = False
            prob.surrogate = sur
            job = Job(prob)
        m = {"trained": False, "eval": 0, "pred": 0, "x": [], "y": [], "trains": 0, "req": 0, "hook": case["hook"],
             "ts": case["train_step"]}
        with guard("predicting"):
            for j in range(case.get("preload", 0)):
                px, py = [9.0 + j, -9.0], [100.0 + j]
                sur.add_data(px, py)
                m["x"].append(px)
                m["y"].append(py)
        edited = set()
        seen_pred = seen_decl_after = seen_retrain = False
        for k, op in enumerate(case["ops"]):
            if op["op"] == "trained":
                with guard("predicting"):
                    sur.trained = op["v"]
                m["trained"] = op["v"]
                continue
            if op["op"] == "hook":
                if op["v"]:
                    prob.predict = hook_fn
                elif "predict" in prob.__dict__:
                    del prob.predict
                m["hook"] = op["v"] or case["hook"]          # a hook defined in the class body cannot be taken away
                edited.add("hook-edited")
                continue
            if op["op"] == "ts":
                sur.train_step = op["v"]
                m["ts"] = op["v"]
                edited.add("train_step-edited")
                continue
            state["decision"] = op["hook"]
            state["pred_obj"] = None
            n_log, n_hook = len(log), len(hook_log)
            ind = Individual(list(op["x"]))
            with guard("predicting"):
                if op["op"] == "job":
                    job.evaluate(ind)
                    ret = ind.costs
                else:
                    ret = prob.surrogate.evaluate(ind)
            m["req"] += 1
            ask_hook = m["trained"] and m["hook"]
            predicted = ask_hook and op["hook"] != "decline"
            used = state["pred_obj"] is not None and ret is state["pred_obj"]
            if used and not predicted:
                # (consulting the hook while untrained is allowed; using its answer is not)
                raise Violation("predicting", "prediction-used-untrained", "step %d: a prediction was returned although "
                                "the model is not trained (trained=%r)" % (k, m["trained"]))
            if predicted:
                m["pred"] += 1
                seen_pred = True
                if len(log) != n_log:
                    raise Violation("predicting", "objective-called-on-prediction", "step %d: objective evaluated "
                                    "although a prediction was used" % k)
                if ret is not state["pred_obj"]:
                    raise Violation("predicting", "prediction-not-returned", "step %d: returned %r, hook gave %r" % (
                        k, ret, state["pred_obj"]))
            else:
                if ask_hook:
                    seen_decl_after = True
                if len(log) - n_log != 1:
                    raise Violation("predicting", "objective-call-count", "step %d: %d objective calls for one request "
                                    "(trained=%r decision=%r)" % (k, len(log) - n_log, m["trained"], op["hook"]))
                if ret is not log[-1][1]:
                    raise Violation("predicting", "true-value-not-returned", "step %d: returned %r, objective gave %r" % (
                        k, ret, log[-1][1]))
                m["eval"] += 1
                m["x"].append(list(op["x"]))
                m["y"].append(log[-1][1])
                if m["ts"] != -1 and m["eval"] % m["ts"] == 0:
                    m["trains"] += 1
                    if m["trains"] > 1:
                        seen_retrain = True
                    # whether a training makes the model usable is train()'s own decision (e.g. a score threshold)
                    m["trained"] = bool(sur.trained)
            got_tr = len(stub.fits) if stub is not None else len(trains)
            if got_tr != m["trains"]:
                raise Violation("predicting", "retrain-schedule", "step %d: %d trainings after %d true evaluations with "
                                "train_step=%d, expected %d" % (k, got_tr, m["eval"], m["ts"], m["trains"]))
            if sur.eval_counter != m["eval"] or sur.predict_counter != m["pred"]:
                raise Violation("predicting", "counters", "step %d: eval/predict counters %d/%d, expected %d/%d" % (
                    k, sur.eval_counter, sur.predict_counter, m["eval"], m["pred"]))
            if sur.eval_counter + sur.predict_counter != m["req"]:
                raise Violation("predicting", "counters-sum", "counters add to %d after %d requests" % (
                    sur.eval_counter + sur.predict_counter, m["req"]))
            if [list(x) for x in sur.x_data] != m["x"] or len(sur.y_data) != len(m["y"]) or any(
                    a is not b for a, b in zip(sur.y_data, m["y"])):
                raise Violation("predicting", "training-set", "step %d: training set %r / %r, expected %r / %r" % (
                    k, sur.x_data, sur.y_data, m["x"], m["y"]))
            if bool(sur.trained) != m["trained"]:
                raise Violation("predicting", "trained-flag", "step %d: trained=%r expected %r" % (
                    k, sur.trained, m["trained"]))
            if stub is not None and stub.fits and stub.fits[-1] != (len(m["x"]), len(m["y"])) and got_tr == m["trains"] \
                    and m["ts"] != -1 and m["eval"] % m["ts"] == 0 and not predicted:
                raise Violation("predicting", "fit-data", "fit saw %r samples, training set has %d" % (
                    stub.fits[-1], len(m["x"])))
    finally:
        dispose(prob)
    return {"nt": seen_pred and seen_decl_after and seen_retrain,
            "classes": [case["kind"], "ts%d" % case["train_step"], "hook" if case["hook"] else "no-hook"] + (
                ["predicted"] if seen_pred else []) + (["retrained"] if seen_retrain else []) + sorted(edited) + (
                ["preloaded"] if case.get("preload") else []) + ([] if case.get("eval_stats", True) else ["eval_stats-off"])}


@st.composite
def passthrough(draw):
    return {"xs": [[draw(st.integers(-5, 5)) / 2.0, draw(st.integers(-5, 5)) / 2.0]
                   for _ in range(draw(st.integers(1, 20)))], "via_job": draw(st.booleans())}


def check_passthrough(case):
    from artap.problem import Problem
    from artap.individual import Individual
    from artap.job import Job
    from artap.surrogate import SurrogateModelEval
    log = []

    class P(Problem):
        def set(self, **kw):
            self.parameters = [{"name": "a", "bounds": [-5, 5]}, {"name": "b", "bounds": [-5, 5]}]
            self.costs = [{"name": "f"}]

        def evaluate(self, individual):
            val = [float(individual.vector[0]) - float(individual.vector[1])]
            log.append(val)
            return val

        def predict(self, individual):     # its answer must never be used by the pass-through surrogate
            return [0.0]
    prob = P()
    try:
        with guard("pass-through"):
            if not isinstance(prob.surrogate, SurrogateModelEval):
                raise Violation("pass-through", "default-not-passthrough", "default surrogate is %r" % (prob.surrogate,))
            job = Job(prob)
            for k, x in enumerate(case["xs"]):
                ind = Individual(list(x))
                n = len(log)
                if case["via_job"]:
                    job.evaluate(ind)
                    ret = ind.costs
                else:
                    ret = prob.surrogate.evaluate(ind)
                if len(log) - n != 1 or ret is not log[-1]:
                    raise Violation("pass-through", "value", "request %d: returned %r, objective log %r" % (k, ret, log[n:]))
                if prob.surrogate.eval_counter != k + 1 or prob.surrogate.predict_counter != 0:
                    raise Violation("pass-through", "counter", "after %d requests counters are %d/%d" % (
                        k + 1, prob.surrogate.eval_counter, prob.surrogate.predict_counter))
    finally:
        dispose(prob)
    return {"nt": len(case["xs"]) >= 2, "classes": ["job" if case["via_job"] else "direct"]}


# ---------------------------------------------------------------- several requests in flight at once

@st.composite
def overlap_cases(draw):
    return {"threads": draw(st.integers(2, 4)), "rounds": draw(st.integers(1, 3)),
            "train_step": draw(st.sampled_from([-1, 2, 3, 4])), "kind": draw(st.sampled_from(["minimal", "scikit"]))}


def check_overlap(case):
    """the parallel evaluator sends several requests through one surrogate object at the same time (worker threads): a
    barrier inside the objective makes the true evaluations of one round overlap; the accounting must still add up"""
    import threading
    from artap.problem import Problem
    from artap.individual import Individual
    from artap.surrogate import SurrogateModelPredict
    from artap.surrogate_scikit import SurrogateModelScikit
    nthr, rounds = case["threads"], case["rounds"]
    barrier = threading.Barrier(nthr)
    lock = threading.Lock()
    log = []

    class P(Problem):
        def set(self, **kw):
            self.parameters = [{"name": "a", "bounds": [-5, 5]}, {"name": "b", "bounds": [-5, 5]}]
            self.costs = [{"name": "f"}]

        def evaluate(self, individual):
            try:
                barrier.wait(timeout=20)
            except threading.BrokenBarrierError:
                pass
            val = [float(individual.vector[0]) + 3.0 * float(individual.vector[1])]
            with lock:
                log.append((list(individual.vector), val))
            return val

    class Minimal(SurrogateModelPredict):
        def train(self):
            pass

        def predict(self, x, *a):
            return None

        def init_default_regressor(self):
            self.regressor = object()

    prob = P()
    errs = []
    try:
        with guard("overlap"):
            if case["kind"] == "scikit":
                sur = SurrogateModelScikit(prob)
                sur.regressor = Stub()
            else:
                sur = Minimal(prob)
            sur.train_step = case["train_step"]
            prob.surrogate = sur

        def work(t):
            try:
                for r in range(rounds):
                    prob.surrogate.evaluate(Individual([float(t), float(r)]))
            except BaseException as e:  # noqa
                errs.append(e)
        ths = [threading.Thread(target=work, args=(t,)) for t in range(nthr)]
        for th in ths:
            th.start()
        for th in ths:
            th.join(60)
        if errs:
            raise Violation("overlap", "raises-under-threads", "surrogate raised %r with %d requests in flight" % (
                errs[0], nthr))
        n = nthr * rounds
        with guard("overlap"):
            ec, pc, nx, ny = sur.eval_counter, sur.predict_counter, len(sur.x_data), len(sur.y_data)
        if len(log) != n or ec + pc != n or ec != n or nx != n or ny != n:
            raise Violation("overlap", "accounting-lost-under-overlap", "%d requests in %d overlapping rounds: %d objective "
                            "calls, eval/predict counters %d/%d, training set %d/%d samples" % (
                                n, rounds, len(log), ec, pc, nx, ny))
    finally:
        dispose(prob)
    return {"nt": True, "classes": [case["kind"], "threads%d" % nthr, "rounds%d" % rounds]}


CLAUSES = [
    Clause("predicting", histories(), check_history, quick=800, thorough=8000, quick_shards=4),
    Clause("pass-through", passthrough(), check_passthrough, quick=300, thorough=3000),
    Clause("overlap", overlap_cases(), check_overlap, quick=40, thorough=400, quick_shards=2),
]
