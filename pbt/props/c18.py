"""C18 - swarm: personal best never regresses, velocity clamped, position reset to the bound, leader set bounded."""
import math
import random
from hypothesis import strategies as st

from ..core import Clause, Violation, guard
from .. import oracles as O
from ..harness import make_problem, dispose, seed_all, Patched

PROPERTY = "C18"
LEVEL = "exploration"
RULE = ("unit level on OMOPSO / SMPSO / PSOGA instances: update_particle_best with drawn costs/best costs (grid values, "
        "ties, incomparable pairs); update_velocity and speed_constriction with leaders filled from drawn particles and "
        "positions/bests up to 1e6 box widths outside; update_position with any finite position/velocity; run level "
        "(N=2..8, G=1..5, m=1..3): the objective callback inspects algorithm.leaders at every call and after run(). "
        "Non-trivial = a coordinate that crosses a bound / a best-update where old and new are incomparable / a run in "
        "which the leader archive was truncated at least once")
ASSUMPTIONS = ["leader-archive non-domination is asserted for robust domination only (better by > 1e-9 relative in some "
               "objective), because the leader archive compares epsilon-scaled values",
               "finite positions and velocities"]

ALGS = ["OMOPSO", "SMPSO", "PSOGA"]


@st.composite
def boxes(draw, n):
    out = []
    for _ in range(n):
        lb = draw(st.sampled_from([0.0, -5.0, 100.0, -1e6, 0.5]))
        out.append([lb, lb + draw(st.sampled_from([1.0, 10.0, 1e-3, 1e6, 3.0]))])
    return out


def _alg(name, bxs, m=2, ptype=None):
    import artap.algorithm_swarm as sw
    ps = [{"name": "x%d" % i, "bounds": list(b)} for i, b in enumerate(bxs)]
    for p_, t_ in zip(ps, ptype or []):
        if t_:
            p_["parameter_type"] = t_
    cs = [{"name": "f%d" % j, "criteria": "minimize"} for j in range(m)]
    prob = make_problem(ps, cs, lambda ind: [0.0] * m)
    return prob, getattr(sw, name)(prob)


# ---------------------------------------------------------------- personal best

@st.composite
def best_cases(draw):
    m = draw(st.integers(1, 3))
    k = draw(st.integers(1, 5))
    parts = []
    for _ in range(k):
        cur = [float(draw(st.integers(0, 3))) for _ in range(m)] + [draw(st.sampled_from([True, True, False]))]
        mode = draw(st.sampled_from(["free", "same", "worse", "better", "incomparable", "incomparable"]))
        if mode == "incomparable" and m >= 2:
            best = list(cur)
            best[0] += 1.0
            best[1] -= 1.0
        elif mode in ("free", "incomparable"):
            best = [float(draw(st.integers(0, 3))) for _ in range(m)] + [draw(st.sampled_from([True, True, False]))]
        elif mode == "same":
            best = list(cur)
        elif mode == "worse":
            best = [c + 1.0 for c in cur[:-1]] + [cur[-1]]
        else:
            best = [c - 1.0 for c in cur[:-1]] + [cur[-1]]
        parts.append({"cur": cur, "best": best})
    # PSOGA hands a GA child the *same* features dict as its parent: two particles then share one personal best and are
    # updated one after the other
    share = draw(st.booleans()) and len(parts) >= 2
    return {"alg": draw(st.sampled_from(ALGS)), "parts": parts, "share": share}


def check_best(case):
    from artap.algorithm_swarm import IndividualSwarm
    prob, alg = None, None
    try:
        with guard("personal-best"):
            m_obj = len(case["parts"][0]["cur"]) - 1
            prob, alg = _alg(case["alg"], [[0.0, 1.0], [0.0, 1.0]], m=m_obj)   # single-objective fast paths included
            swarm = []
            for j, p in enumerate(case["parts"]):
                ind = IndividualSwarm([0.1 * j, 0.2])
                ind.costs_signed = list(p["cur"])
                ind.features["best_cost"] = list(p["best"])
                ind.features["best_vector"] = [9.0, 9.0]
                swarm.append(ind)
            if case.get("share"):
                swarm[1].features = swarm[0].features          # one shared dict, as PSOGA.run() does
            alg.update_particle_best(swarm)
        nt = False
        if case.get("share"):
            # sequential semantics on the shared best: particle 0 first, then particle 1 against the result
            best, bvec = list(case["parts"][0]["best"]), [9.0, 9.0]
            for ind, p in list(zip(swarm, case["parts"]))[:2]:
                if O.verdict(best, p["cur"]) != 1:
                    best, bvec = list(p["cur"]), list(ind.vector)
            got_b, got_v = list(swarm[0].features["best_cost"]), list(swarm[0].features["best_vector"])
            if got_b != best or got_v != bvec:
                raise Violation("personal-best", "shared-best", "%s: two particles sharing one personal best (costs %r then "
                                "%r, old best %r): best became %r / %r, expected %r / %r" % (
                                    case["alg"], case["parts"][0]["cur"], case["parts"][1]["cur"], case["parts"][0]["best"],
                                    got_b, got_v, best, bvec))
        for k_, (ind, p) in enumerate(zip(swarm, case["parts"])):
            if case.get("share") and k_ < 2:
                continue
            old_dominates = O.verdict(p["best"], p["cur"]) == 1
            bc, bv = list(ind.features["best_cost"]), list(ind.features["best_vector"])
            if old_dominates:
                if bc != p["best"] or bv != [9.0, 9.0]:
                    raise Violation("personal-best", "regressed", "%s: best %r dominates new %r but was replaced by %r" % (
                        case["alg"], p["best"], p["cur"], bc))
            else:
                if bc != p["cur"] or bv != list(ind.vector):
                    raise Violation("personal-best", "not-updated", "%s: best %r does not dominate new %r but best stayed "
                                    "%r / %r" % (case["alg"], p["best"], p["cur"], bc, bv))
            if O.verdict(p["best"], p["cur"]) == 0 and p["best"] != p["cur"]:
                nt = True
    finally:
        if prob is not None:
            dispose(prob)
    return {"nt": nt, "classes": [case["alg"]]}


# ---------------------------------------------------------------- velocity

far = st.one_of(st.floats(-1.0, 2.0), st.floats(-1e6, 1e6), st.sampled_from([0.0, 1.0, -1e6, 1e6]))


@st.composite
def velocity_cases(draw):
    n = draw(st.integers(1, 4))
    bxs = draw(boxes(n))

    def pos():
        return [b[0] + draw(far) * (b[1] - b[0]) for b in bxs]
    # some parameters are declared as integers (integer bounds; ranges 3, 7, ... have a half range of k + 0.5)
    ptype = [None] * n
    if draw(st.integers(0, 3)) == 0:
        for j in range(n):
            if draw(st.booleans()):
                lo = draw(st.integers(-8, 8))
                bxs[j] = [float(lo), float(lo + draw(st.sampled_from([1, 2, 3, 4, 7, 10, 11])))]
                ptype[j] = "integer"
    parts = [{"x": pos(), "best": pos()} for _ in range(draw(st.integers(1, 4)))]
    leaders = [pos() for _ in range(draw(st.integers(1, 3)))]
    return {"alg": draw(st.sampled_from(ALGS)), "boxes": bxs, "parts": parts, "leaders": leaders,
            "seed": draw(st.integers(0, 2 ** 31)), "v": [draw(st.floats(-1e9, 1e9)) for _ in range(n)],
            "ptype": ptype,
            # the same algorithm object worked on another box of the same dimension before (a study that edits the
            # bounds in place between two runs): limits follow the box declared at the time of the update
            "pre": draw(st.one_of(st.none(), st.none(), boxes(n)))}


def check_velocity(case):
    from artap.algorithm_swarm import IndividualSwarm
    bxs = case["boxes"]
    prob = None
    try:
        with guard("velocity"):
            prob, alg = _alg(case["alg"], case.get("pre") or bxs, ptype=case.get("ptype"))
            if case.get("pre"):
                _warm_up(alg, case["pre"], case["seed"])
                for p_, b in zip(prob.parameters, bxs):
                    p_["bounds"] = list(b)
            for j, l in enumerate(case["leaders"]):
                ind = IndividualSwarm(list(l))
                ind.costs_signed = [float(j), float(-j), True]
                ind.features["crowding_distance"] = float(j)
                alg.leaders.add(ind)
            swarm = []
            for p in case["parts"]:
                ind = IndividualSwarm(list(p["x"]))
                ind.features["best_vector"] = list(p["best"])
                swarm.append(ind)
            random.seed(case["seed"])
            alg.update_velocity(swarm)
            sc = [alg.speed_constriction(v, b[1], b[0]) for v, b in zip(case["v"], bxs)]
        for ind in swarm:
            vel = ind.features["velocity"]
            if len(vel) != len(bxs):
                raise Violation("velocity", "shape", "velocity %r for %d parameters" % (vel, len(bxs)))
            for v, (lb, ub) in zip(vel, bxs):
                if not math.isfinite(v) or abs(v) > (ub - lb) / 2.0:
                    raise Violation("velocity", "%s:unclamped" % case["alg"], "%s: velocity component %r exceeds half the "
                                    "range of [%r, %r] (x=%r best=%r)" % (case["alg"], v, lb, ub, list(ind.vector),
                                                                         ind.features["best_vector"]))
        for v, r, (lb, ub) in zip(case["v"], sc, bxs):
            half = (ub - lb) / 2.0
            exp = min(max(v, -half), half)
            if r != exp:
                raise Violation("velocity", "speed_constriction", "speed_constriction(%r, %r, %r) = %r, expected %r" % (
                    v, ub, lb, r, exp))
    finally:
        if prob is not None:
            dispose(prob)
    return {"nt": True, "classes": [case["alg"]] + (["box-edited"] if case.get("pre") else []) + (
        ["integer-parameters"] if any(case.get("ptype") or []) else [])}


def _warm_up(alg, bxs, seed):
    """one velocity and one position update on the box the algorithm was created with"""
    from artap.algorithm_swarm import IndividualSwarm
    from artap.archive import Archive
    mid = [(b[0] + b[1]) / 2.0 for b in bxs]
    lead = IndividualSwarm(list(mid))
    lead.costs_signed = [0.0, 0.0, True]
    lead.features["crowding_distance"] = 0.0
    alg.leaders.add(lead)
    ind = IndividualSwarm([b[0] + 0.25 * (b[1] - b[0]) for b in bxs])
    ind.features["best_vector"] = list(mid)
    random.seed(seed)
    alg.update_velocity([ind])
    alg.update_position([ind])
    alg.leaders = Archive()          # as the constructors of the three algorithms create it


# ---------------------------------------------------------------- position

@st.composite
def position_cases(draw):
    n = draw(st.integers(1, 4))
    bxs = draw(boxes(n))
    parts = []
    for _ in range(draw(st.integers(1, 3))):
        x = [b[0] + draw(far) * (b[1] - b[0]) for b in bxs]
        v = [draw(st.one_of(st.floats(-2.0, 2.0), st.floats(-1e6, 1e6), st.just(0.0))) * (b[1] - b[0]) for b in bxs]
        parts.append({"x": x, "v": v})
    return {"alg": draw(st.sampled_from(ALGS)), "boxes": bxs, "parts": parts,
            "pre": draw(st.one_of(st.none(), st.none(), boxes(n)))}


def check_position(case):
    from artap.algorithm_swarm import IndividualSwarm
    bxs = case["boxes"]
    factor = 0.001 if case["alg"] == "SMPSO" else -1.0
    prob = None
    crossed = False
    try:
        with guard("position"):
            prob, alg = _alg(case["alg"], case.get("pre") or bxs)
            if case.get("pre"):
                _warm_up(alg, case["pre"], 0)
                for p_, b in zip(prob.parameters, bxs):
                    p_["bounds"] = list(b)
            swarm = []
            for p in case["parts"]:
                ind = IndividualSwarm(list(p["x"]))
                ind.features["velocity"] = list(p["v"])
                swarm.append(ind)
            alg.update_position(swarm)
        for ind, p in zip(swarm, case["parts"]):
            for i, (lb, ub) in enumerate(bxs):
                t = p["x"][i] + p["v"][i]
                gx, gv = ind.vector[i], ind.features["velocity"][i]
                if t > ub:
                    ex, evl = ub, p["v"][i] * factor
                    crossed = True
                elif t < lb:
                    ex, evl = lb, p["v"][i] * factor
                    crossed = True
                else:
                    ex, evl = t, p["v"][i]
                if gx != ex:
                    raise Violation("position", "%s:position" % case["alg"], "%s: x=%r v=%r box [%r,%r] -> position %r, "
                                    "expected %r" % (case["alg"], p["x"][i], p["v"][i], lb, ub, gx, ex))
                if gv != evl:
                    raise Violation("position", "%s:velocity-after-reset" % case["alg"], "%s: x=%r v=%r box [%r,%r] -> "
                                    "velocity %r, expected %r" % (case["alg"], p["x"][i], p["v"][i], lb, ub, gv, evl))
    finally:
        if prob is not None:
            dispose(prob)
    return {"nt": crossed, "classes": [case["alg"], "crossed" if crossed else "inside"] + (
        ["box-edited"] if case.get("pre") else [])}


# ---------------------------------------------------------------- leaders during runs

@st.composite
def run_cases(draw):
    noisy = draw(st.booleans())
    if noisy:
        # one parameter, several generations: many particles end up on the same bound, measured separately
        return {"alg": draw(st.sampled_from(ALGS)), "n": 1, "m": draw(st.sampled_from([2, 2, 3])),
                "N": draw(st.sampled_from([3, 4, 5, 8])), "G": draw(st.integers(3, 8)),
                "seed": draw(st.integers(0, 2 ** 31)), "noisy": True}
    return {"alg": draw(st.sampled_from(ALGS)), "n": draw(st.integers(1, 3)), "m": draw(st.sampled_from([1, 2, 2, 3])),
            "N": draw(st.sampled_from([2, 2, 3, 3, 4, 5, 8])), "G": draw(st.integers(1, 5)),
            "seed": draw(st.integers(0, 2 ** 31)),
            # a measured (noisy) objective: the same design evaluated twice gets different costs - particles that are
            # reset onto the same corner of the box then enter the leader archive with equal vectors, different costs
            "noisy": False}


def robust_dominates(p, q):
    r = O.marker_rank(p[-1], q[-1])
    if r != 0:
        return r < 0
    a, b = p[:-1], q[:-1]
    return all(x <= y for x, y in zip(a, b)) and any(x < y - 1e-9 * max(abs(x), abs(y), 1e-300) for x, y in zip(a, b))


def check_run(case):
    import artap.algorithm_swarm as sw
    from artap.archive import Archive
    n, m, N = case["n"], case["m"], case["N"]
    holder = {}
    snaps = []
    truncs = [0]
    ncall = [0]

    def ev(ind):
        alg = holder.get("alg")
        if alg is not None:
            snaps.append([list(x.costs_signed) for x in alg.leaders])
        x = ind.vector
        centres = [0.0, 1.0, -0.5]      # conflicting objectives: a real trade-off front, so the archive fills up
        out = [sum((xi - centres[j]) ** 2 for xi in x) for j in range(m)]
        if case.get("noisy"):
            ncall[0] += 1
            out = [v + 0.05 * (((ncall[0] * 7919 * (j + 1)) % 101) / 101.0 - 0.5) for j, v in enumerate(out)]
        return out
    ps = [{"name": "x%d" % i, "bounds": [-1.0, 2.0]} for i in range(n)]
    cs = [{"name": "f%d" % j, "criteria": "minimize"} for j in range(m)]
    prob = make_problem(ps, cs, ev)
    real_trunc = Archive.truncate

    def spy(self, size, getter, larger_preferred=True):
        if len(self) > size:
            truncs[0] += 1
        return real_trunc(self, size, getter, larger_preferred)
    seed_all(case["seed"])
    try:
        with Patched((Archive, "truncate", spy)):
            with guard("leaders"):
                alg = getattr(sw, case["alg"])(prob)
                alg.options["max_population_size"] = N
                alg.options["max_population_number"] = case["G"]
                holder["alg"] = alg
                alg.run()
                snaps.append([list(x.costs_signed) for x in alg.leaders])
    finally:
        dispose(prob)
    for s in snaps:
        if len(s) > N:
            raise Violation("leaders", "%s:too-many-leaders" % case["alg"], "%s N=%d: leader archive holds %d members" % (
                case["alg"], N, len(s)))
        for a in s:
            for b in s:
                if a is not b and robust_dominates(a, b):
                    raise Violation("leaders", "%s:dominated-leader" % case["alg"], "%s: leader %r dominates leader %r" % (
                        case["alg"], a, b))
    if not snaps[-1]:
        raise Violation("leaders", "%s:no-leaders" % case["alg"], "leader archive empty after the run")
    return {"nt": truncs[0] > 0, "classes": [case["alg"], "truncated" if truncs[0] else "never-truncated"]}


# ---------------------------------------------------------------- leader archive driven directly (histories of swarms)

@st.composite
def leader_histories(draw):
    m = draw(st.sampled_from([2, 2, 3]))
    N = draw(st.integers(2, 6))
    swarms = []
    for _ in range(draw(st.integers(1, 5))):
        sw = []
        for _ in range(N):
            # positions from a handful of places (particles pile up on the bounds); costs measured separately, so the
            # same position can carry different costs
            sw.append({"x": [draw(st.sampled_from([0.0, 1.0, 0.5, 0.25]))],
                       "c": [draw(st.integers(0, 6)) / 2.0 for _ in range(m)]})
        swarms.append(sw)
    return {"alg": draw(st.sampled_from(ALGS)), "N": N, "m": m, "swarms": swarms}


def check_leader_history(case):
    from artap.algorithm_swarm import IndividualSwarm
    prob = None
    try:
        with guard("global-best"):
            prob, alg = _alg(case["alg"], [[0.0, 1.0]], m=case["m"])
            alg.options["max_population_size"] = case["N"]
        for k, sw in enumerate(case["swarms"]):
            with guard("global-best"):
                parts = []
                for p in sw:
                    ind = IndividualSwarm(list(p["x"]))
                    ind.costs_signed = list(p["c"]) + [True]
                    ind.costs = list(p["c"])
                    parts.append(ind)
                alg.update_global_best(parts)
                leaders = [(list(o.vector), list(o.costs_signed)) for o in alg.leaders]
            # (the archive is truncated by crowding distance, so a leader may well be dominated by an earlier offer that
            #  was dropped: only the size bound and mutual non-domination are claimed)
            if len(leaders) > case["N"]:
                raise Violation("global-best", "%s:too-many-leaders" % case["alg"], "%d leaders for N=%d after swarm %d" % (
                    len(leaders), case["N"], k))
            for a in leaders:
                for b in leaders:
                    if a is not b and O.verdict(a[1], b[1]) == 1:
                        raise Violation("global-best", "%s:dominated-leader" % case["alg"], "%s: after swarm %d leader %r "
                                        "(at %r) dominates leader %r (at %r)" % (case["alg"], k, a[1], a[0], b[1], b[0]))
    finally:
        if prob is not None:
            dispose(prob)
    same_place = any(len({tuple(p["x"]) for p in sw}) < len(sw) for sw in case["swarms"])
    return {"nt": same_place and len(case["swarms"]) >= 2, "classes": [case["alg"], "swarms%d" % len(case["swarms"])]}


CLAUSES = [
    Clause("global-best", leader_histories(), check_leader_history, quick=1200, thorough=10000, quick_shards=2),
    Clause("personal-best", best_cases(), check_best, quick=1500, thorough=15000, quick_shards=2),
    Clause("velocity", velocity_cases(), check_velocity, quick=1500, thorough=15000, quick_shards=2),
    Clause("position", position_cases(), check_position, quick=1500, thorough=15000, quick_shards=2),
    Clause("leaders", run_cases(), check_run, quick=60, thorough=400, quick_shards=4),
]
