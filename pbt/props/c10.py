"""C10 - SQLite store round-trips problem and individuals; one row per id, last wins (model-based histories)."""
import os
import json
import math
import struct
import sqlite3
from hypothesis import strategies as st

from ..core import Clause, Enum, Violation, guard, HarnessError
from ..harness import make_problem, dispose, seed_all

PROPERTY = "C10"
LEVEL = "exploration"
RULE = ("histories of up to 20 store operations over one database file: sync_individual(new), mutate + "
        "sync_individual(existing id), mutate without sync, add without sync, sync_all, reopen through a read-mode "
        "view; individuals carry finite floats of all magnitudes, +-0.0, +-inf, numpy float64 scalars, signed costs "
        "ending in a bool, population ids, nested JSON custom data, features of the kinds the algorithms write (ints, "
        "None, floats, inf crowding distances, id lists given as Individual objects, velocity/best vectors, bools, "
        "numpy gradient arrays, nested lists), parents/children; metadata with unicode names and extra keys. Model: "
        "id -> normalised last synced snapshot. Second clause: every synchronising algorithm is run with a store and "
        "every recorded individual must have a row equal to its final in-memory data. Non-trivial = an id synced "
        ">= 2 times with different data, or an inf / -0.0 value, or nested custom data, or numpy scalars")
ASSUMPTIONS = ["NaN is not generated (the property says finite or infinite)",
               "strings and dicts are not generated as feature values (no algorithm writes them)",
               "row order of SELECT * is not part of the statement: definitions are compared as name-keyed sets",
               "numbers are compared by value and, when both sides are floats, bit-exactly (sign of zero included)"]

fin = st.floats(allow_nan=False, allow_infinity=False)
special = st.sampled_from([0.0, -0.0, float("inf"), float("-inf"), 1.7976931348623157e308, 5e-324, 0.1, 1e-7])
num = st.one_of(fin, fin, special, st.integers(-10 ** 6, 10 ** 6).map(float), st.floats(-1e3, 1e3, allow_nan=False))

json_leaf = st.one_of(st.none(), st.booleans(), st.integers(-10 ** 9, 10 ** 9), num,
                      st.text(max_size=8), st.sampled_from(["", "ünïcode-✓", "a'b\"c", "line\nbreak"]))
json_val = st.recursive(json_leaf, lambda ch: st.one_of(
    st.lists(ch, max_size=4),
    st.dictionaries(st.one_of(st.text(max_size=5), st.integers(0, 9).map(str)), ch, max_size=4)), max_leaves=10)

name_text = st.one_of(st.text(alphabet=st.characters(blacklist_characters="\x00", blacklist_categories=("Cs",)),
                              min_size=1, max_size=8), st.sampled_from(["x", "délka", "名前", "a b", "p'1"]),
                      # whitespace is data too: leading / trailing blanks, tabs, line breaks
                      st.sampled_from([" lead", "trail ", "a\tb", "multi\nline", "  ", "\r", "x\n"]))


@st.composite
def feature_value(draw, nind):
    kind = draw(st.sampled_from(["int", "none", "float", "inf", "ids", "vector", "bool", "gradient", "nested"]))
    if kind == "int":
        return {"k": kind, "v": draw(st.integers(-5, 1000))}
    if kind == "none":
        return {"k": kind, "v": None}
    if kind == "float":
        return {"k": kind, "v": draw(num)}
    if kind == "inf":
        return {"k": kind, "v": float("inf")}
    if kind == "ids":     # references to other individuals, given as objects (the store must write their ids)
        return {"k": kind, "v": draw(st.lists(st.integers(0, max(nind - 1, 0)), max_size=4)),
                "as_obj": draw(st.booleans())}
    if kind == "vector":
        return {"k": kind, "v": draw(st.lists(num, max_size=4))}
    if kind == "bool":
        return {"k": kind, "v": draw(st.booleans())}
    if kind == "gradient":
        return {"k": kind, "v": draw(st.lists(fin, min_size=1, max_size=4))}
    return {"k": kind, "v": draw(st.lists(st.lists(num, max_size=3), max_size=3))}


@st.composite
def fields(draw, nind):
    n = draw(st.integers(0, 4))
    m = draw(st.integers(0, 3))
    feats = draw(st.dictionaries(st.sampled_from(["front_number", "crowding_distance", "dominate", "velocity",
                                                  "best_vector", "best_cost", "gradient", "feasible", "sensitivity",
                                                  "domination_counter", "extra"]),
                                 feature_value(nind), max_size=4))
    return {"vector": draw(st.lists(num, min_size=n, max_size=n)),
            "costs": draw(st.lists(num, min_size=m, max_size=m)),
            "signed": draw(st.lists(num, min_size=m, max_size=m)) + [draw(st.booleans())],
            "np": draw(st.booleans()),
            "pop": draw(st.integers(-1, 50)),
            # evaluation status of the design when it is synchronised (a crashed evaluation leaves 'in_progress')
            "state": draw(st.sampled_from(["EVALUATED", "EVALUATED", "EMPTY", "IN_PROGRESS", "FAILED"])),
            "custom": draw(st.one_of(st.just({}), st.dictionaries(st.text(max_size=5), json_val, max_size=3))),
            "features": feats,
            "parents": draw(st.lists(st.integers(0, max(nind - 1, 0)), max_size=2)),
            "children": draw(st.lists(st.integers(0, max(nind - 1, 0)), max_size=2))}


@st.composite
def histories(draw):
    npar = draw(st.integers(1, 3))
    pnames = draw(st.lists(name_text, min_size=npar, max_size=npar, unique=True))
    meta = {"name": draw(name_text), "description": draw(st.one_of(st.just(""), name_text)),
            "parameters": [{"name": pn, "bounds": [draw(st.floats(-1e3, 0)), draw(st.floats(1, 1e3))],
                            **({"initial_value": draw(st.floats(0, 1))} if draw(st.booleans()) else {}),
                            **({"precision": 1e-3} if draw(st.booleans()) else {})} for pn in pnames],
            "costs": [{"name": cn, **({"criteria": draw(st.sampled_from(["minimize", "maximize"]))}
                                     if draw(st.booleans()) else {})}
                      for cn in draw(st.lists(name_text, min_size=1, max_size=3, unique=True))]}
    # a second problem definition for mode="rewrite": a subset / superset of the first one's names
    keep_p = draw(st.integers(1, len(meta["parameters"])))
    keep_c = draw(st.integers(1, len(meta["costs"])))
    meta2 = {"name": draw(name_text), "description": draw(st.one_of(st.just(""), name_text)),
             "parameters": [dict(p_) for p_ in meta["parameters"][:keep_p]] + (
                 [{"name": "fresh-" + meta["parameters"][0]["name"], "bounds": [0.0, 2.0]}] if draw(st.booleans()) else []),
             "costs": [dict(c_) for c_ in meta["costs"][:keep_c]]}
    ops = []
    nind = 0
    for _ in range(draw(st.integers(1, 20))):
        o = draw(st.sampled_from(["new", "new", "new", "mutate", "mutate", "mutate_nosync", "add_nosync", "sync_all",
                                  "view", "inplace", "inplace", "reopen_write", "rewrite", "view_other"]))
        if o == "rewrite" and (any(x["op"] == "rewrite" for x in ops) or draw(st.integers(0, 2)) > 0):
            o = "view"
        # the file is locked by somebody else (a monitoring tool, another run) for the first `busy` write attempts of
        # this synchronisation: SQLite then answers "database is locked" (OperationalError) until the lock is released
        busy = draw(st.sampled_from([0, 0, 0, 0, 1, 2, 3, 5, 8]))
        if o in ("new", "add_nosync"):
            f_ = draw(fields(nind))
            if nind and draw(st.integers(0, 3)) == 0:
                # the same design again (a repeated measurement, an iterate that did not move): another individual, another
                # id, an equal vector
                f_["vector_of"] = draw(st.integers(0, nind - 1))
            ops.append({"op": o, "f": f_, "busy": busy})
            nind += 1
        elif o in ("mutate", "mutate_nosync") and nind:
            ops.append({"op": o, "i": draw(st.integers(0, nind - 1)), "f": draw(fields(nind)), "busy": busy})
        elif o == "inplace" and nind:
            # change the *same* objects (dict / list) an earlier synchronisation has seen, then synchronise again
            ops.append({"op": o, "i": draw(st.integers(0, nind - 1)),
                        "what": draw(st.sampled_from(["custom-key", "custom-nested", "signed-item", "vector-item",
                                                      "feature-append", "costs-append"])),
                        "val": draw(st.one_of(st.integers(-9, 9).map(float), st.sampled_from([-0.0, 0.0, 1.5]))),
                        "sync": draw(st.sampled_from(["individual", "individual", "all"])),
                        # the design is being re-evaluated (or its evaluation crashed) when the run is saved
                        "state": draw(st.sampled_from([None, None, "IN_PROGRESS", "EMPTY", "EVALUATED"]))})
        elif o in ("sync_all", "view", "reopen_write", "rewrite", "view_other"):
            # view_other: in the same session an older, smaller result file of another study is opened for reading
            ops.append({"op": o})
            if o == "rewrite":
                nind = 0
    return {"meta": meta, "meta2": meta2, "ops": ops, "thread_safe": draw(st.sampled_from([True, True, False])),
            # the database path already exists as an empty file (tempfile.NamedTemporaryFile / mkstemp) when the store
            # is created
            "empty_file": draw(st.sampled_from([False, False, True]))}


# ---------------------------------------------------------------- normalisation (what a JSON round trip must return)

def norm(v, ids=None):
    import numpy as np
    from artap.individual import Individual
    if isinstance(v, Individual):
        return v.id
    if isinstance(v, (np.floating,)):
        return float(v)
    if isinstance(v, (np.integer,)):
        return int(v)
    if isinstance(v, np.ndarray):
        return [norm(x) for x in v.tolist()]
    if isinstance(v, dict):
        return {str(k): norm(x) for k, x in v.items()}
    if isinstance(v, (list, tuple)):
        return [norm(x) for x in v]
    return v


def same(a, b):
    if isinstance(a, bool) or isinstance(b, bool):
        return type(a) is type(b) and a == b
    if isinstance(a, float) and isinstance(b, float):
        return struct.pack("<d", a) == struct.pack("<d", b)
    if isinstance(a, (int, float)) and isinstance(b, (int, float)):
        return a == b
    if isinstance(a, dict) and isinstance(b, dict):
        return a.keys() == b.keys() and all(same(a[k], b[k]) for k in a)
    if isinstance(a, list) and isinstance(b, list):
        return len(a) == len(b) and all(same(x, y) for x, y in zip(a, b))
    return type(a) is type(b) and a == b


def snapshot(ind):
    return {"vector": norm(list(ind.vector)), "costs": norm(list(ind.costs)), "costs_signed": norm(ind.costs_signed),
            "population_id": ind.population_id, "custom": norm(ind.custom),
            "features": {k: norm(v) for k, v in ind.features.items()}}


def _apply(ind, f, objs):
    import numpy as np
    cv = (lambda x: np.float64(x)) if f["np"] else (lambda x: x)
    ind.vector = [cv(x) for x in f["vector"]]
    if f.get("vector_of") is not None and objs:
        ind.vector = list(objs[f["vector_of"] % len(objs)].vector)
    ind.costs = [cv(x) for x in f["costs"]]
    ind.costs_signed = [cv(x) for x in f["signed"][:-1]] + [f["signed"][-1]]
    ind.population_id = f["pop"]
    if f.get("state"):
        ind.state = getattr(type(ind).State, f["state"])
    ind.custom = json.loads(json.dumps(f["custom"]))   # private copy
    for k, fv in f["features"].items():
        if fv["k"] == "ids":
            if fv.get("as_obj") and objs:
                ind.features[k] = [objs[i % len(objs)] for i in fv["v"]]
            else:
                ind.features[k] = [objs[i % len(objs)].id for i in fv["v"]] if objs else []
        elif fv["k"] == "gradient":
            ind.features[k] = np.array(fv["v"])
        elif fv["k"] == "vector":
            ind.features[k] = [cv(x) for x in fv["v"]]
        else:
            ind.features[k] = fv["v"]
    ind.parents = [objs[i % len(objs)] for i in f["parents"]] if objs else []
    ind.children = [objs[i % len(objs)] for i in f["children"]] if objs else []


def compare_view(clause, db, meta, model, where):
    from artap.problem import ProblemViewDataStore
    view = None
    try:
        with guard(clause):
            view = ProblemViewDataStore(database_name=db)
        if meta is not None:
            if view.name != meta["name"] or view.description != meta["description"]:
                raise Violation(clause, "metadata:name", "%s: name/description %r/%r, written %r/%r" % (
                    where, view.name, view.description, meta["name"], meta["description"]))
            gp = {p["name"]: p for p in view.parameters}
            wp = {p["name"]: norm(p) for p in meta["parameters"]}
            if len(view.parameters) != len(meta["parameters"]) or not same(gp, wp):
                raise Violation(clause, "metadata:parameters", "%s: parameters %r, written %r" % (where, gp, wp))
            gc = {c["name"]: c for c in view.costs}
            wc = {c["name"]: norm(c) for c in meta["costs"]}
            if len(view.costs) != len(meta["costs"]) or not same(gc, wc):
                raise Violation(clause, "metadata:costs", "%s: cost definitions %r, written %r" % (where, gc, wc))
        got = {}
        for ind in view.individuals:
            if ind.id in got:
                raise Violation(clause, "duplicate-id-in-view", "%s: id %r appears twice in the view" % (where, ind.id))
            got[ind.id] = ind
        if sorted(got) != sorted(model):
            raise Violation(clause, "ids", "%s: view holds ids %r, synchronised ids %r" % (where, sorted(got), sorted(model)))
        for i, snap in model.items():
            ind = got[i]
            have = {"vector": ind.vector, "costs": ind.costs, "costs_signed": ind.costs_signed,
                    "population_id": ind.population_id, "custom": ind.custom, "features": ind.features}
            for key in snap:
                if not same(have[key], snap[key]):
                    raise Violation(clause, "field:%s" % key, "%s: id %r field %s read back as %r, last synchronised %r" % (
                        where, i, key, have[key], snap[key]))
    finally:
        if view is not None:
            dispose(view)
    con = sqlite3.connect(db)
    try:
        rows = con.execute("SELECT id, individual FROM individuals").fetchall()
    finally:
        con.close()
    if len(rows) != len(model) or sorted(r[0] for r in rows) != sorted(model):
        raise Violation(clause, "row-count", "%s: %d rows for %d synchronised ids (row ids %r)" % (
            where, len(rows), len(model), sorted(r[0] for r in rows)))


class busy_file:
    """while active, the first k INSERT statements issued through connections opened by artap fail the way SQLite fails
    when another connection holds the write lock"""

    def __init__(self, k):
        self.left = k
        self.real = sqlite3.connect

    def __enter__(self):
        outer = self

        class Cur(sqlite3.Cursor):
            def execute(self, sql, *a):
                if outer.left > 0 and sql.lstrip().upper().startswith("INSERT"):
                    outer.left -= 1
                    raise sqlite3.OperationalError("database is locked")
                return super().execute(sql, *a)

        class Conn(sqlite3.Connection):
            def cursor(self, *a, **kw):
                return super().cursor(Cur)

        def connect(*a, **kw):
            kw["factory"] = Conn
            return outer.real(*a, **kw)
        if self.left:
            sqlite3.connect = connect
        return self

    def __exit__(self, *exc):
        sqlite3.connect = self.real
        return False


def check_history(case):
    from artap.individual import Individual
    from artap.datastore import SqliteDataStore
    meta = case["meta"]
    ts = case.get("thread_safe", True)
    prob = make_problem(meta["parameters"], meta["costs"], lambda ind: [0.0], name=meta["name"])
    prob.description = meta["description"]
    classes = set()
    resynced = False
    extra = [prob]          # every problem object created for this case is released at the end (also the first one,
    #                         after `prob` has been rebound by a reopen / rewrite step)
    try:
        db = os.path.join(prob.working_dir, "c10.sqlite")
        if case.get("empty_file"):
            open(db, "w").close()
            classes.add("pre-created-empty-file")
        with guard("store"):
            # default = one connection per call (thread-safe mode); the single cached connection mode as well
            if ts:
                prob.data_store = SqliteDataStore(prob, database_name=db)
            else:
                prob.data_store = SqliteDataStore(prob, database_name=db, thread_safe=False)
        if not case.get("thread_safe", True):
            classes.add("single-connection-mode")
        objs = []
        model = {}
        other_db = None
        if any(op["op"] == "view_other" for op in case["ops"]):
            # the other study: two designs, recorded before anything of this history exists (so their ids are smaller)
            from artap.problem import ProblemViewDataStore
            po = make_problem([{"name": "u", "bounds": [0.0, 1.0]}], [{"name": "g"}], lambda ind: [0.0], name="older study")
            extra.append(po)
            other_db = os.path.join(po.working_dir, "older.sqlite")
            with guard("store"):
                po.data_store = SqliteDataStore(po, database_name=other_db)
                for j in range(2):
                    io = Individual([0.25 * j])
                    io.costs = [float(j)]
                    po.individuals.append(io)
                    po.data_store.sync_individual(io)
        all_ids = {}
        for k, op in enumerate(case["ops"]):
            o = op["op"]
            if o == "view_other":
                vo = None
                try:
                    with guard("store"):
                        vo = ProblemViewDataStore(database_name=other_db)
                        if len(vo.individuals) != 2:
                            raise Violation("store", "other-store", "the older study shows %d designs" % len(vo.individuals))
                finally:
                    if vo is not None:
                        dispose(vo)
                classes.add("other-store-opened")
                continue
            if o in ("new", "add_nosync"):
                ind = Individual([])
                # rows are keyed by id: two designs created in one session must never share one
                if ind.id in all_ids:
                    raise Violation("store", "id-reused", "a new design got id %r, which an earlier design of this session "
                                    "already carries (its row would be overwritten)" % (ind.id,))
                all_ids[ind.id] = True
                _apply(ind, op["f"], objs)
                objs.append(ind)
                prob.individuals.append(ind)
                if o == "new":
                    with guard("store"), busy_file(op.get("busy", 0) if ts else 0) as bf:
                        prob.data_store.sync_individual(ind)
                    if op.get("busy") and ts:
                        classes.add("file-locked-%s" % ("1-2" if op["busy"] < 3 else "3+"))
                    model[ind.id] = snapshot(ind)
            elif o in ("mutate", "mutate_nosync", "inplace") and not objs:
                continue      # nothing is left to change (everything unsynchronised was dropped by a reopen)
            elif o in ("mutate", "mutate_nosync"):
                ind = objs[op["i"] % len(objs)]
                _apply(ind, op["f"], objs)
                if o == "mutate":
                    with guard("store"), busy_file(op.get("busy", 0) if ts else 0) as bf:
                        prob.data_store.sync_individual(ind)
                    if op.get("busy") and ts:
                        classes.add("file-locked-%s" % ("1-2" if op["busy"] < 3 else "3+"))
                    new = snapshot(ind)
                    if ind.id in model and not same(model[ind.id], new):
                        resynced = True
                    model[ind.id] = new
            elif o == "inplace":
                ind = objs[op["i"] % len(objs)]
                w, val = op["what"], op["val"]
                if w == "custom-key":
                    ind.custom["k%d" % k] = val
                elif w == "custom-nested":
                    ind.custom.setdefault("nest", []).append(val)
                elif w == "signed-item" and len(ind.costs_signed) >= 1:
                    ind.costs_signed[0] = val if len(ind.costs_signed) > 1 else (not ind.costs_signed[0])
                elif w == "vector-item" and ind.vector:
                    ind.vector[0] = val
                elif w == "feature-append":
                    ind.features.setdefault("velocity", [])
                    if isinstance(ind.features["velocity"], list):
                        ind.features["velocity"].append(val)
                    else:
                        ind.features["velocity"] = [val]
                else:
                    ind.costs.append(val)
                    ind.costs_signed.insert(-1, val)
                classes.add("inplace-change")
                if op.get("state"):
                    ind.state = getattr(Individual.State, op["state"])
                    if op["state"] == "IN_PROGRESS" and ind.id in model:
                        classes.add("stored-design-in-progress")
                with guard("store"):
                    if op["sync"] == "all":
                        prob.data_store.sync_all()
                    else:
                        prob.data_store.sync_individual(ind)
                if op["sync"] == "all":
                    for other in objs:
                        model[other.id] = snapshot(other)
                else:
                    new = snapshot(ind)
                    if ind.id in model and not same(model[ind.id], new):
                        resynced = True
                    model[ind.id] = new
            elif o == "sync_all":
                with guard("store"):
                    prob.data_store.sync_all()
                for ind in objs:
                    new = snapshot(ind)
                    if ind.id in model and not same(model[ind.id], new):
                        resynced = True
                    model[ind.id] = new
            elif o == "view":
                compare_view("store", db, meta, model, "after step %d" % k)
                classes.add("mid-history-view")
            elif o == "rewrite":
                # mode="rewrite": the file starts again from scratch with the new problem's definitions
                meta = case["meta2"]
                prob3 = make_problem(meta["parameters"], meta["costs"], lambda ind: [0.0], name=meta["name"])
                prob3.description = meta["description"]
                extra.append(prob3)
                with guard("store"):
                    prob3.data_store = SqliteDataStore(prob3, database_name=db, mode="rewrite",
                                                       thread_safe=case.get("thread_safe", True))
                prob = prob3
                objs = []
                model = {}
                classes.add("rewrite-mode")
                compare_view("store", db, meta, model, "right after rewrite at step %d" % k)
            elif o == "reopen_write":
                # a second problem opens the existing file in write mode (it loads what is stored) and carries on
                compare_view("store", db, meta, model, "before reopening at step %d" % k)
                prob2 = make_problem(meta["parameters"], meta["costs"], lambda ind: [0.0], name=meta["name"])
                prob2.description = meta["description"]
                extra.append(prob2)
                with guard("store"):
                    prob2.data_store = SqliteDataStore(prob2, database_name=db,
                                                       thread_safe=case.get("thread_safe", True))
                # the reopening problem takes over the stored definitions (once, not on top of its own)
                if [p_["name"] for p_ in prob2.parameters] != [p_["name"] for p_ in meta["parameters"]] or \
                        [c_["name"] for c_ in prob2.costs] != [c_["name"] for c_ in meta["costs"]]:
                    raise Violation("store", "reopen-write:definitions", "after reopening, the problem has parameters %r "
                                    "and costs %r; stored were %r / %r" % (
                                        [p_["name"] for p_ in prob2.parameters], [c_["name"] for c_ in prob2.costs],
                                        [p_["name"] for p_ in meta["parameters"]], [c_["name"] for c_ in meta["costs"]]))
                loaded = {i.id: i for i in prob2.individuals}
                if sorted(loaded) != sorted(model):
                    raise Violation("store", "reopen-write:ids", "reopened store loaded ids %r, synchronised %r" % (
                        sorted(loaded), sorted(model)))
                for i_, snap in model.items():
                    have = snapshot(loaded[i_])
                    for key in snap:
                        if not same(have[key], snap[key]):
                            raise Violation("store", "reopen-write:field:%s" % key, "id %r field %s loaded as %r, last "
                                            "synchronised %r" % (i_, key, have[key], snap[key]))
                prob = prob2
                objs = list(prob2.individuals)
                classes.add("reopened-in-write-mode")
        compare_view("store", db, meta, model, "at the end")
    finally:
        for q in reversed(extra):
            dispose(q)
    txt = json.dumps(case["ops"])
    if resynced:
        classes.add("resynced-different")
    if "Infinity" in txt or "-0.0" in txt:
        classes.add("inf-or-negzero")
    if any(op.get("f", {}).get("np") for op in case["ops"]):
        classes.add("numpy-scalars")
    if any(isinstance(v, (dict, list)) and v for op in case["ops"] for v in op.get("f", {}).get("custom", {}).values()):
        classes.add("nested-custom")
    return {"nt": bool(classes - {"mid-history-view"}), "classes": sorted(classes) or ["plain"]}


# ---------------------------------------------------------------- algorithm runs with a store

RUNS = ["NSGAII", "EpsMOEA", "OMOPSO", "SMPSO", "PSOGA", "Sweep", "ScipyOpt", "NLopt", "NSGAII+GRADIENT",
        "NSGAII+WORST_CASE", "EpsMOEA+WORST_CASE"]


@st.composite
def run_cases(draw):
    return {"alg": draw(st.sampled_from(RUNS)), "n": draw(st.integers(1, 3)), "m": draw(st.integers(1, 2)),
            "N": draw(st.integers(2, 5)), "G": draw(st.integers(1, 3)), "seed": draw(st.integers(0, 2 ** 31))}


def check_run(case):
    from artap.datastore import SqliteDataStore
    from artap.algorithm import EvaluatorType
    n = case["n"]
    m = 1 if case["alg"] in ("ScipyOpt", "NLopt") else case["m"]

    def ev(ind):
        x = [float(v) for v in ind.vector]
        return [sum((xi - 0.5 * j) ** 2 for xi in x) + j for j in range(m)]
    ps = [{"name": "x%d" % i, "bounds": [-2.0, 2.0], "initial_value": 0.3, "tol": 0.05} for i in range(n)]
    cs = [{"name": "f%d" % j, "criteria": "minimize"} for j in range(m)]
    prob = make_problem(ps, cs, ev, name="run")
    seed_all(case["seed"])
    try:
        db = os.path.join(prob.working_dir, "run.sqlite")
        with guard("runs"):
            prob.data_store = SqliteDataStore(prob, database_name=db)
            name, _, evt = case["alg"].partition("+")
            if name in ("NSGAII", "EpsMOEA"):
                from .c08 import algorithm_class
                alg = algorithm_class(name)(prob, evaluator_type=getattr(EvaluatorType, evt) if evt else None)
            elif name in ("OMOPSO", "SMPSO", "PSOGA"):
                from .c08 import algorithm_class
                alg = algorithm_class(name)(prob)
            elif name == "Sweep":
                from artap.algorithm_sweep import SweepAlgorithm
                from artap.operators import RandomGenerator
                g = RandomGenerator(prob.parameters)
                g.init(case["N"] + 1)
                alg = SweepAlgorithm(prob, generator=g)
            elif name == "ScipyOpt":
                from artap.algorithm_scipy import ScipyOpt
                alg = ScipyOpt(prob)
                alg.options["n_iterations"] = 4 + case["G"]
            else:
                import artap.algorithm_nlopt as anl
                alg = anl.NLopt(prob)
                alg.options["n_iterations"] = 4 + case["G"]
                alg.options["verbose_level"] = 0
            if name in ("NSGAII", "EpsMOEA", "OMOPSO", "SMPSO", "PSOGA"):
                alg.options["max_population_size"] = case["N"]
                alg.options["max_population_number"] = case["G"]
            alg.run()
        if not prob.individuals:
            raise Violation("runs", "nothing-recorded", "%s recorded no individuals" % case["alg"])
        model = {}
        for ind in prob.individuals:
            model[ind.id] = snapshot(ind)
        # rows of individuals that are not recorded in problem.individuals (children of robust evaluators) are allowed
        from artap.problem import ProblemViewDataStore
        view = None
        try:
            with guard("runs"):
                view = ProblemViewDataStore(database_name=db)
            got = {}
            for ind in view.individuals:
                if ind.id in got:
                    raise Violation("runs", "duplicate-id-in-view", "id %r twice" % (ind.id,))
                got[ind.id] = ind
            for i, snap in model.items():
                if i not in got:
                    raise Violation("runs", "%s:missing-row" % case["alg"], "%s: recorded individual %r has no row "
                                    "(rows %d, recorded %d)" % (case["alg"], i, len(got), len(model)))
                ind = got[i]
                have = {"vector": ind.vector, "costs": ind.costs, "costs_signed": ind.costs_signed,
                        "population_id": ind.population_id, "custom": ind.custom, "features": ind.features}
                for key in snap:
                    if not same(have[key], snap[key]):
                        raise Violation("runs", "%s:stale-%s" % (case["alg"], key), "%s: id %r %s stored %r, final "
                                        "in-memory %r" % (case["alg"], i, key, have[key], snap[key]))
        finally:
            if view is not None:
                dispose(view)
    finally:
        dispose(prob)
    return {"nt": True, "classes": [case["alg"]]}


# ---------------------------------------------------------------- the encoder alone (no database): to_dict -> JSON -> from_dict

@st.composite
def encode_cases(draw):
    return {"f": draw(fields(3)), "others": draw(st.integers(0, 3))}


def check_encode(case):
    from artap.individual import Individual
    with guard("encode"):
        objs = [Individual([float(i)]) for i in range(max(case["others"], 1))]
        ind = Individual([])
        _apply(ind, case["f"], objs)
        want = snapshot(ind)
        text = json.dumps(ind.to_dict())
        back = Individual.from_dict(json.loads(text))
    have = {"vector": back.vector, "costs": back.costs, "costs_signed": back.costs_signed,
            "population_id": back.population_id, "custom": back.custom, "features": back.features}
    if back.id != ind.id:
        raise Violation("encode", "id", "id %r decoded as %r" % (ind.id, back.id))
    for key in want:
        if not same(have[key], want[key]):
            raise Violation("encode", "field:%s" % key, "field %s encoded as %s decoded as %r, was %r" % (
                key, text[:200], have[key], want[key]))
    t = json.dumps(case["f"])
    return {"nt": "Infinity" in t or "-0.0" in t or bool(case["f"]["custom"]), "classes": ["encode"]}


def decode_bytes(fdp):
    """atheris decoder for the encoder clause: raw IEEE doubles (no NaN), small structures"""
    import math

    def num():
        x = fdp.ConsumeFloat()
        if x != x:
            x = float("inf") if fdp.ConsumeBool() else -0.0
        return x

    def small_list(k):
        return [num() for _ in range(fdp.ConsumeIntInRange(0, k))]
    n, m = fdp.ConsumeIntInRange(0, 4), fdp.ConsumeIntInRange(0, 3)
    feats = {}
    for name in ("front_number", "crowding_distance", "dominate", "velocity", "gradient", "extra")[:fdp.ConsumeIntInRange(0, 6)]:
        kind = ["int", "none", "float", "inf", "ids", "vector", "bool", "gradient", "nested"][fdp.ConsumeIntInRange(0, 8)]
        if kind == "int":
            v = {"k": kind, "v": fdp.ConsumeIntInRange(-5, 1000)}
        elif kind == "none":
            v = {"k": kind, "v": None}
        elif kind == "float":
            v = {"k": kind, "v": num()}
        elif kind == "inf":
            v = {"k": kind, "v": float("inf")}
        elif kind == "ids":
            v = {"k": kind, "v": [fdp.ConsumeIntInRange(0, 2) for _ in range(fdp.ConsumeIntInRange(0, 3))],
                 "as_obj": fdp.ConsumeBool()}
        elif kind == "vector":
            v = {"k": kind, "v": small_list(4)}
        elif kind == "bool":
            v = {"k": kind, "v": fdp.ConsumeBool()}
        elif kind == "gradient":
            v = {"k": kind, "v": [x for x in small_list(4) if math.isfinite(x)] or [0.0]}
        else:
            v = {"k": kind, "v": [small_list(3) for _ in range(fdp.ConsumeIntInRange(0, 3))]}
        feats[name] = v
    custom = {}
    for i in range(fdp.ConsumeIntInRange(0, 3)):
        key = fdp.ConsumeUnicodeNoSurrogates(4)
        custom[key] = [num(), {"n": small_list(2)}, None, fdp.ConsumeUnicodeNoSurrogates(6)][fdp.ConsumeIntInRange(0, 3)]
    f = {"vector": [num() for _ in range(n)], "costs": [num() for _ in range(m)],
         "signed": [num() for _ in range(m)] + [fdp.ConsumeBool()], "np": fdp.ConsumeBool(),
         "pop": fdp.ConsumeIntInRange(-1, 50), "custom": custom, "features": feats, "parents": [], "children": []}
    return {"f": f, "others": 3}


# ---------------------------------------------------------------- large stores (hundreds to thousands of rows)

def large_items(tier):
    sizes = [513, 1300] if tier == "quick" else [255, 256, 511, 512, 513, 1024, 1300, 4099]
    for n in sizes:
        for warm in (0, 37):
            for how in ("individual", "all"):
                yield {"n": n, "warm": warm, "how": how}


def check_large(case):
    from artap.individual import Individual
    from artap.datastore import SqliteDataStore
    meta = {"name": "large", "description": "", "parameters": [{"name": "a", "bounds": [0.0, 1.0]}],
            "costs": [{"name": "f"}]}
    prob = make_problem(meta["parameters"], meta["costs"], lambda ind: [0.0], name="large")
    try:
        db = os.path.join(prob.working_dir, "large.sqlite")
        for _ in range(case["warm"]):
            Individual([0.0])            # ids in the file do not start at the beginning of the id counter
        with guard("large"):
            prob.data_store = SqliteDataStore(prob, database_name=db, thread_safe=(case["how"] == "individual"))
        model = {}
        for k in range(case["n"]):
            ind = Individual([k / 7.0])
            ind.costs = [float(k)]
            ind.costs_signed = [float(k), True]
            ind.population_id = k % 5
            prob.individuals.append(ind)
            if case["how"] == "individual":
                with guard("large"):
                    prob.data_store.sync_individual(ind)
            model[ind.id] = snapshot(ind)
        if case["how"] == "all":
            with guard("large"):
                prob.data_store.sync_all()
        compare_view("large", db, meta, model, "%d individuals" % case["n"])
    finally:
        dispose(prob)
    return {"nt": True, "classes": ["n%d" % case["n"], case["how"]]}


FUZZ_DECODERS = {"encode": decode_bytes}
FUZZ = ["encode"]

CLAUSES = [
    Clause("encode", encode_cases(), check_encode, quick=1500, thorough=10000, quick_shards=2),
    Clause("store", histories(), check_history, quick=300, thorough=3000, quick_shards=4),
    Clause("runs", run_cases(), check_run, quick=44, thorough=240, quick_shards=4),
]
ENUMS = [
    Enum("large", large_items, check_large, tiers=("quick", "thorough"), chunk=1,
         exhaustive_note="stores with 513 / 1300 (thorough: 255..4099) individuals, written one by one or by sync_all, ids "
                         "offset from the start of the id counter or not"),
]
