"""C11 - a crash at any moment leaves the SQLite store readable and consistent (crash-point enumeration)."""
import os
import sys
import json
import time
import shutil
import signal
import tempfile
import subprocess
from hypothesis import strategies as st

from ..core import Clause, Enum, Violation, HarnessError, VERIF
from .. import oracles as O

PROPERTY = "C11"
LEVEL = "fault_enumeration"
RULE = ("writer subprocess (harness problem + SqliteDataStore in default thread-safe mode; scenarios: serial batch, "
        "3-worker batch, NSGA-II N=4 G=3, EpsMOEA and OMOPSO N=4 G=2; small and 8 KB payloads) killed without clean-up at a crash point counted from "
        "the moment the store constructor returned: (A) os._exit inside the k-th objective call, (B) os._exit "
        "before/after the j-th SQL statement or commit (sqlite3.connect factory installed in the writer), (F) os._exit before/after the j-th Python-level remove/rename/replace/truncate of the database files (1 MB store), (A/B) also with a harness-owned clock on which every model evaluation takes 6 s or 700 s, (C) SIGKILL "
        "at the N-th pwrite64 on the database/journal via strace fault injection, (D) SIGKILL after a drawn delay, (E) the j-th statement, if it is a synchronisation's upsert, fails once with 'database is locked' (sqlite's answer after its busy timeout) and the writer is killed when that synchronisation call has returned; a "
        "fresh reader process opens the file through ProblemViewDataStore. Oracle: reader succeeds, metadata intact, "
        "every row equals one version the writer attempted for that id and is not older than the last acknowledged "
        "one, every acknowledged id is present, evaluated rows satisfy costs == f(vector). A/B/C are enumerated "
        "completely per scenario in the thorough tier, sampled in the quick tier. Non-trivial = the writer died "
        "after >= 1 acknowledged synchronisation and before its last one")
ASSUMPTIONS = ["crash = process death (SIGKILL / _exit), not power loss: the store runs with synchronous=0",
               "crash points start after the store constructor returned (a kill during table creation is out of scope)",
               "injector C needs ptrace (strace); if unavailable its points are reported as skipped, A/B/D still decide"]

HERE = os.path.dirname(os.path.dirname(os.path.abspath(__file__)))
WRITER = os.path.join(HERE, "crash", "writer.py")
READER = os.path.join(HERE, "crash", "reader.py")
PY = sys.executable
SCENARIOS = ["serial", "parallel", "nsga2", "epsmoea", "omopso"]


def _root():
    return os.environ.get("ARTAP_ROOT", "/repo")


def _f(x):
    return [float(x[0]) ** 2 + float(x[1]), 3.0 * float(x[0]) - float(x[1]) + 0.123456789]


def _read_log(path):
    recs = []
    if os.path.exists(path):
        with open(path) as fh:
            for line in fh:
                line = line.strip()
                if line:
                    try:
                        recs.append(json.loads(line))
                    except ValueError:
                        pass     # a torn last line can only happen for the line being written at death
    return recs


def run_writer(d, scenario, payload, inject, slow_ms=0, strace_when=None, kill_after=None, model_s=0.0, fail_call=None, slow_call=None):
    db = os.path.join(d, "store.sqlite")
    log = os.path.join(d, "side.log")
    spec = {"root": _root(), "db": db, "log": log, "scenario": scenario, "payload": payload, "inject": inject,
            "slow_ms": slow_ms, "model_s": model_s, "fail_call": fail_call, "slow_call": slow_call}
    cmd = [PY, WRITER, json.dumps(spec)]
    if strace_when is not None:
        cmd = ["strace", "-f", "-o", os.path.join(d, "strace.out"), "-P", db, "-P", db + "-journal",
               "-e", "trace=pwrite64", "-e", "inject=pwrite64:signal=SIGKILL:when=%d" % strace_when] + cmd
    env = dict(os.environ, PYTHONHASHSEED="0")
    p = subprocess.Popen(cmd, stdout=subprocess.PIPE, stderr=subprocess.DEVNULL, env=env, cwd=d)
    try:
        if kill_after is not None:
            line = p.stdout.readline()
            if line.strip() != b"ARMED":
                p.kill()
                p.wait()
                raise HarnessError("writer did not arm: %r" % (line,))
            time.sleep(kill_after)
            try:
                os.kill(p.pid, signal.SIGKILL)
            except ProcessLookupError:
                pass
        p.wait(timeout=120)
    except subprocess.TimeoutExpired:
        p.kill()
        p.wait()
        raise HarnessError("writer hung (scenario %s inject %r)" % (scenario, inject))
    finally:
        if p.stdout:
            p.stdout.close()
    return db, log, p.returncode


def run_reader(db):
    p = subprocess.run([PY, READER, _root(), db], stdout=subprocess.PIPE, stderr=subprocess.DEVNULL, timeout=120,
                       env=dict(os.environ, PYTHONHASHSEED="0"))
    try:
        return json.loads(p.stdout.decode())
    except ValueError:
        raise HarnessError("reader produced no JSON (exit %s): %r" % (p.returncode, p.stdout[-300:]))


def judge(clause, recs, view, where):
    """the oracle: compare what the fresh reader sees with the writer's side log"""
    armed = any(r["e"] == "ARMED" for r in recs)
    if not armed:
        raise HarnessError("%s: writer died before the store constructor returned" % where)
    if not view.get("ok"):
        raise Violation(clause, "unreadable", "%s: the read-mode view failed: %s" % (where, view.get("error")))
    if view["name"] != "crash-test ✓" or view["description"] != "C11 writer" or \
            sorted(p["name"] for p in view["parameters"]) != ["a", "b"] or \
            sorted(c["name"] for c in view["costs"]) != ["f0", "f1"]:
        raise Violation(clause, "metadata", "%s: metadata read back as %r / %r / %r / %r" % (
            where, view["name"], view["description"], view["parameters"], view["costs"]))
    if view.get("integrity") != ["ok"]:
        raise Violation(clause, "integrity-check", "%s: PRAGMA integrity_check says %r" % (where, view.get("integrity")))
    versions = {}
    acked = {}
    for r in recs:
        if r["e"] == "TRY":
            versions.setdefault(r["s"]["id"], []).append(r["s"])
        elif r["e"] == "ACK":
            vs = versions.get(r["id"], [])
            # index of the acknowledged version = last attempted version equal to the acked snapshot
            idx = max((i for i, s in enumerate(vs) if s == r["s"]), default=len(vs) - 1)
            acked[r["id"]] = max(acked.get(r["id"], -1), idx)
    rows = {}
    for row in view["rows"]:
        if row["id"] in rows:
            raise Violation(clause, "duplicate-row", "%s: id %r twice" % (where, row["id"]))
        rows[row["id"]] = row
    if view.get("raw_rows") != len(rows):
        raise Violation(clause, "row-count", "%s: %r raw rows, %d in the view" % (where, view.get("raw_rows"), len(rows)))
    for i, last in acked.items():
        if i not in rows:
            raise Violation(clause, "acknowledged-row-missing", "%s: id %r was synchronised (acknowledged) before the "
                            "crash but has no row" % (where, i))
    for i, row in rows.items():
        vs = versions.get(i)
        if not vs:
            raise Violation(clause, "row-from-nowhere", "%s: row id %r was never attempted by the writer" % (where, i))
        match = [k for k, s in enumerate(vs) if all(s[key] == row[key] for key in (
            "vector", "costs", "costs_signed", "state", "population_id", "custom_hash", "features_hash"))]
        if not match:
            raise Violation(clause, "partial-or-foreign-row", "%s: row id %r %r equals none of the %d attempted versions" % (
                where, i, {k: row[k] for k in ("vector", "costs", "costs_signed", "state", "population_id")}, len(vs)))
        if max(match) < acked.get(i, -1):
            raise Violation(clause, "stale-row", "%s: row id %r holds version %d, but version %d was acknowledged" % (
                where, i, max(match), acked[i]))
        if len(row["costs"]) < 2:
            # in these scenarios every synchronisation happens after a successful evaluation (NSGA-II also records
            # parent copies, which carry their parent's costs in state 'empty')
            raise Violation(clause, "row-without-costs", "%s: row id %r is in state %r with costs %r" % (
                where, i, row["state"], row["costs"]))
        if True:
            if list(row["costs"])[:2] != _f(row["vector"]):
                raise Violation(clause, "costs-do-not-match-vector", "%s: row id %r vector %r costs %r, f(vector)=%r" % (
                    where, i, row["vector"], row["costs"], _f(row["vector"])))
            for s, c, sg in zip(row["costs_signed"][:-1], row["costs"], (1, -1)):
                if not O.round_relation_ok(float(s), float(c), sg):
                    raise Violation(clause, "signed-costs", "%s: row id %r costs %r signed %r" % (
                        where, i, row["costs"], row["costs_signed"]))
    n_ack = sum(1 for r in recs if r["e"] == "ACK")
    done = any(r["e"] == "DONE" for r in recs)
    return {"acks": n_ack, "done": done, "tries": sum(1 for r in recs if r["e"] == "TRY")}


_dry_cache = {}


def _disk_cache():
    w = os.environ.get("PBT_WORK")
    return os.path.join(w, "c11cache.json") if w else None


def _cache_get(key):
    k = json.dumps(key)
    if k in _dry_cache:
        return True, _dry_cache[k]
    p = _disk_cache()
    if p and os.path.exists(p):
        try:
            with open(p) as fh:
                data = json.load(fh)
            if k in data:
                _dry_cache[k] = data[k]
                return True, data[k]
        except (ValueError, OSError):
            pass
    return False, None


def _cache_put(key, val):
    k = json.dumps(key)
    _dry_cache[k] = val
    p = _disk_cache()
    if p:
        try:
            data = {}
            if os.path.exists(p):
                with open(p) as fh:
                    data = json.load(fh)
            data[k] = val
            tmp = p + ".%d" % os.getpid()
            with open(tmp, "w") as fh:
                json.dump(data, fh)
            os.replace(tmp, p)
        except (ValueError, OSError):
            pass


def dry_run(scenario, payload, model_s=0.0, fail_call=None, slow_call=None):
    key = ["dry", _root(), scenario, payload] + ([model_s] if model_s else []) + (["fail", fail_call] if fail_call else []) + (
        ["slow", slow_call] if slow_call else [])
    hit, val = _cache_get(key)
    if hit:
        return val
    if True:
        d = tempfile.mkdtemp(prefix="c11dry-")
        try:
            db, log, rc = run_writer(d, scenario, payload, None, model_s=model_s, fail_call=fail_call, slow_call=slow_call)
            recs = _read_log(log)
            counts = [r for r in recs if r["e"] == "COUNTS"]
            if rc != 0 or not counts:
                raise HarnessError("dry run of scenario %s failed (exit %r)" % (scenario, rc))
            view = run_reader(db)
            judge("dry-run", recs, view, "clean run of %s" % scenario)
            val = {"sql": counts[0]["sql"], "obj": counts[0]["obj"], "fs": counts[0].get("fs", 0),
                   "tries": sum(1 for r in recs if r["e"] == "TRY")}
            _cache_put(key, val)
        finally:
            shutil.rmtree(d, ignore_errors=True)
    return val


def strace_points(scenario, payload):
    """(first pwrite64 index after the store was armed, total) from a traced dry run; None if strace cannot inject"""
    key = ["strace", _root(), scenario, payload]
    hit, val = _cache_get(key)
    if hit:
        return tuple(val) if val else None
    res = None
    d = tempfile.mkdtemp(prefix="c11st-")
    try:
        db = os.path.join(d, "store.sqlite")
        log = os.path.join(d, "side.log")
        spec = {"root": _root(), "db": db, "log": log, "scenario": scenario, "payload": payload, "inject": None}
        out = os.path.join(d, "strace.out")
        cmd = ["strace", "-f", "-o", out, "-P", db, "-P", db + "-journal", "-P", log, "-e", "trace=pwrite64,write",
               PY, WRITER, json.dumps(spec)]
        try:
            p = subprocess.run(cmd, stdout=subprocess.DEVNULL, stderr=subprocess.DEVNULL, timeout=180, cwd=d,
                               env=dict(os.environ, PYTHONHASHSEED="0"))
        except (OSError, subprocess.TimeoutExpired):
            p = None
        if p is not None and p.returncode == 0 and os.path.exists(out):
            first = None
            n = 0
            for line in open(out, errors="replace"):
                if "pwrite64(" in line:
                    n += 1
                elif "write(" in line and "ARMED" in line and first is None:
                    first = n + 1
            if first is not None and n >= first:
                res = (first, n)
    finally:
        shutil.rmtree(d, ignore_errors=True)
    _cache_put(key, list(res) if res else None)
    return res


def check_point(case):
    sc, payload, inj = case["scenario"], case["payload"], case["inject"]
    ms = case.get("model_s") or 0.0
    fc = case.get("fail_call")
    slc = case.get("slow_call")
    dry = dry_run(sc, payload, ms, fc, slc)
    d = tempfile.mkdtemp(prefix="c11-")
    try:
        kind = inj["kind"]
        where = "scenario %s/%s, crash %r" % (sc, payload, inj)
        if kind == "A":
            k = 1 + inj["k"] % dry["obj"]
            db, log, rc = run_writer(d, sc, payload, {"kind": "A", "k": k}, model_s=ms, fail_call=fc, slow_call=slc)
            where = "scenario %s/%s%s, _exit in objective call %d of %d" % (
                sc, payload, (", every model evaluation takes %g s on the (harness-owned) clock" % ms if ms else "") + (
                    ", objective call %d fails transiently" % fc if fc else "") + (
                    ", objective call %d takes 1.2 s under time_out = 0.5 s" % slc if slc else ""), k, dry["obj"])
        elif kind == "B":
            j = 1 + inj["j"] % dry["sql"]
            db, log, rc = run_writer(d, sc, payload, {"kind": "B", "j": j, "phase": inj["phase"]}, model_s=ms, fail_call=fc)
            where = "scenario %s/%s%s, _exit %s SQL event %d of %d" % (sc, payload, " (model %g s)" % ms if ms else "",
                                                                       inj["phase"], j, dry["sql"])
        elif kind == "F":
            if not dry.get("fs"):
                # the writer performs no Python-level file operation on the database after creating it
                return {"nt": False, "classes": ["inj-F", "no-file-operations", sc, payload]}
            j = 1 + inj["j"] % dry["fs"]
            db, log, rc = run_writer(d, sc, payload, {"kind": "F", "j": j, "phase": inj["phase"]}, model_s=ms)
            where = "scenario %s/%s, _exit %s file operation %d of %d on the database files" % (
                sc, payload, inj["phase"], j, dry["fs"])
        elif kind == "E":
            j = 1 + inj["j"] % dry["sql"]
            db, log, rc = run_writer(d, sc, payload, {"kind": "E", "j": j})
            where = "scenario %s/%s, 'database is locked' at SQL event %d of %d, killed when that synchronisation " \
                    "returned" % (sc, payload, j, dry["sql"])
        elif kind == "C":
            pts = strace_points(sc, payload)
            if pts is None:
                return {"nt": False, "classes": ["C-unavailable"]}
            first, total = pts
            n = first + inj["n"] % (total - first + 1)
            db, log, rc = run_writer(d, sc, payload, None, strace_when=n)
            where = "scenario %s/%s, SIGKILL at pwrite64 #%d (armed at #%d, %d in total)" % (sc, payload, n, first, total)
        else:
            db, log, rc = run_writer(d, sc, payload, None, slow_ms=2.0, kill_after=inj["ms"] / 1000.0)
            where = "scenario %s/%s, SIGKILL %.1f ms after arming" % (sc, payload, inj["ms"])
        recs = _read_log(log)
        view = run_reader(db)
        info = judge("crash", recs, view, where)
    finally:
        shutil.rmtree(d, ignore_errors=True)
    died = not info["done"]
    nt = died and info["acks"] >= 1 and info["tries"] < dry["tries"] + (3 if sc == "parallel" else 0)
    return {"nt": nt, "classes": ["inj-" + kind, sc, payload, "died" if died else "survived",
                                  "mid-history" if nt else "edge"] + (["slow-model-clock"] if ms else []) + (["transient-failure"] if fc else []) + (["call-exceeds-time_out"] if slc else [])}


@st.composite
def points(draw):
    kind = draw(st.sampled_from(["A", "A", "B", "B", "C", "C", "D", "E", "F"]))
    if kind == "A":
        inj = {"kind": "A", "k": draw(st.integers(0, 200))}
    elif kind == "B":
        inj = {"kind": "B", "j": draw(st.integers(0, 2000)), "phase": draw(st.sampled_from(["before", "after"]))}
    elif kind == "E":
        inj = {"kind": "E", "j": draw(st.integers(0, 2000))}
    elif kind == "C":
        inj = {"kind": "C", "n": draw(st.integers(0, 5000))}
    elif kind == "F":
        # a store that has grown beyond a megabyte (128 KB of custom data per design) at the end of an NSGA-II run
        return {"scenario": "nsga2", "payload": "huge", "inject": {"kind": "F", "j": draw(st.integers(0, 50)),
                                                                    "phase": draw(st.sampled_from(["before", "after"]))}}
    else:
        inj = {"kind": "D", "ms": draw(st.floats(0.0, 80.0))}
    case = {"scenario": draw(st.sampled_from(SCENARIOS)), "payload": draw(st.sampled_from(["small", "big"])),
            "inject": inj}
    if kind in ("A", "B"):
        extra = draw(st.sampled_from([None, None, "fail", "fail", "slow", "slow"] + (["late", "late"] if kind == "A" else [])))
        if extra == "fail":
            # one objective call fails transiently (the design is re-sampled and retried); crash points of interest are
            # the calls right after it
            case["fail_call"] = draw(st.integers(1, 6))
            if kind == "A":
                inj["k"] = case["fail_call"] - 1 + draw(st.sampled_from([1, 1, 1, 2, 0]))
        elif extra == "late":
            # the problem declares time_out = 0.5 s and one objective call really takes 1.2 s (the following ones 0.35 s);
            # the writer dies in one of the calls that follow (serial scenario, so that those calls are well defined)
            case["scenario"] = "serial"
            case["payload"] = "small"
            case["slow_call"] = draw(st.integers(1, 3))
            inj["k"] = case["slow_call"] - 1 + draw(st.sampled_from([2, 3, 3, 4]))
        elif extra == "slow":
            # an expensive model: each evaluation takes 6 s (or 700 s, beyond the default time_out) on the harness-owned clock
            case["model_s"] = draw(st.sampled_from([6.0, 6.0, 700.0]))
    return case


def all_points(tier):
    """complete enumeration of injectors A, B (both phases) and C for every scenario (thorough tier)"""
    for sc in SCENARIOS:
        for payload in ("small", "big"):
            if payload == "big" and sc != "serial":
                continue
            dry = dry_run(sc, payload)
            for k in range(dry["obj"]):
                yield {"scenario": sc, "payload": payload, "inject": {"kind": "A", "k": k}}
            for j in range(dry["sql"]):
                for ph in ("before", "after"):
                    yield {"scenario": sc, "payload": payload, "inject": {"kind": "B", "j": j, "phase": ph}}
                yield {"scenario": sc, "payload": payload, "inject": {"kind": "E", "j": j}}
            pts = strace_points(sc, payload)
            if pts is not None:
                for n in range(pts[1] - pts[0] + 1):
                    yield {"scenario": sc, "payload": payload, "inject": {"kind": "C", "n": n}}
    for sc in ("serial", "nsga2"):
        for ms in (6.0, 700.0):
            dry = dry_run(sc, "small", ms)
            for k in range(dry["obj"]):
                yield {"scenario": sc, "payload": "small", "inject": {"kind": "A", "k": k}, "model_s": ms}
            for j in range(dry["sql"]):
                yield {"scenario": sc, "payload": "small", "inject": {"kind": "B", "j": j, "phase": "after"}, "model_s": ms}
    for sc in ("serial", "nsga2"):
        for fcall in (1, 2, 5):
            dry = dry_run(sc, "small", 0.0, fcall)
            for k in range(dry["obj"]):
                yield {"scenario": sc, "payload": "small", "inject": {"kind": "A", "k": k}, "fail_call": fcall}
            for j in range(dry["sql"]):
                yield {"scenario": sc, "payload": "small", "inject": {"kind": "B", "j": j, "phase": "after"}, "fail_call": fcall}
    dry = dry_run("nsga2", "huge")
    for j in range(dry.get("fs", 0)):
        for ph in ("before", "after"):
            yield {"scenario": "nsga2", "payload": "huge", "inject": {"kind": "F", "j": j, "phase": ph}}


CLAUSES = [
    Clause("crash", points(), check_point, quick=64, thorough=60, quick_shards=16, shards=16),
]
ENUMS = [
    Enum("all-crash-points", all_points, check_point, tiers=("thorough",), chunk=12,
         exhaustive_note="every objective call (A), every SQL statement/commit before and after (B) and every pwrite64 on "
                         "the database/journal after the store was created (C) for the serial, 3-worker, NSGA-II, "
                         "EpsMOEA and OMOPSO scenarios (big payload: serial only)"),
]
