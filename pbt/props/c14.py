"""C14 - worst-case and gradient evaluators compute what they promise, stably (histories of batches)."""
import gc
import copy
import math
from hypothesis import strategies as st

from ..core import Clause, Violation, guard
from ..harness import make_problem, dispose, seed_all
from .. import oracles as O

PROPERTY = "C14"
LEVEL = "exploration"
RULE = ("histories of 1..4 batches of 1..4 fresh designs pushed through Algorithm.evaluate of an algorithm built with "
        "the WORST_CASE / GRADIENT evaluator (n=1..3 parameters with drawn tolerances, m=1..2 user objectives from a "
        "polynomial coefficient family, call-logging objective); invariant after every batch over ALL designs "
        "evaluated so far; plus NSGA-II / EpsMOEA runs (G=2..4) with these evaluators. Non-trivial = a history with "
        ">= 2 batches (or a run with >= 2 generations)")
ASSUMPTIONS = ["for m>1 only the structure is asserted for the extra objective (the statement does not say which "
               "objective feeds the sum; the code uses the first)",
               "gradient tolerance 1e-6*scale + float cancellation bound on the quotient"]

coef = st.one_of(st.integers(-3, 3).map(float), st.floats(-5, 5, allow_nan=False).map(lambda x: round(x, 2)))


@st.composite
def setup(draw):
    n = draw(st.integers(1, 3))
    m = draw(st.integers(1, 2))
    tol = [draw(st.sampled_from([0.5, 0.1, 0.25, 1e-3, 1.0, 0.0])) for _ in range(n)]   # 0.0: an exactly known parameter
    lin = [[draw(coef) for _ in range(n)] for _ in range(m)]
    quad = [draw(coef) for _ in range(m)]
    crit = [draw(st.sampled_from(["minimize", "maximize"])) for _ in range(m)]
    return {"n": n, "m": m, "tol": tol, "lin": lin, "quad": quad, "crit": crit}


point = st.one_of(st.integers(-4, 4).map(float), st.floats(-5, 5, allow_nan=False).map(lambda x: round(x, 3)),
                  st.sampled_from([5.0, -5.0, 5.0 - 5e-5, -5.0 + 5e-5]))     # on / next to the bounds of the box


@st.composite
def batch_history(draw):
    s = draw(setup())
    nb = draw(st.integers(1, 4))
    # (a hand-picked design may be written with whole numbers: a list of Python ints)
    ipoint = st.integers(-4, 4)
    batches = [[[draw(pt) for _ in range(s["n"])] for pt in [draw(st.sampled_from([point, point, point, ipoint]))]
                for _ in range(draw(st.integers(1, 4)))] for _ in range(nb)]
    s["batches"] = batches
    # optionally the objective fails transiently the first time it sees the k-th design (it is re-sampled and retried)
    s["fail_call"] = draw(st.one_of(st.none(), st.none(), st.integers(0, 12)))
    # the caller keeps only the designs of the current batch (earlier ones are dropped and garbage-collected, as the
    # rejected offspring of an NSGA-II generation are), and / or edits a parameter tolerance between two batches
    # a later batch may hand in designs of earlier batches again (a caller that re-evaluates its whole population):
    # they are processed again on request, and must still carry exactly one extra objective afterwards
    s["resubmit"] = [draw(st.lists(st.integers(0, 15), max_size=2)) if b and draw(st.integers(0, 2)) == 0 else []
                     for b in range(nb)]
    s["forget"] = draw(st.sampled_from([False, False, True])) and not any(s["resubmit"])
    # new designs of later batches are offspring: their features are a deep copy of an already processed design's
    # (what the swarm algorithms' CopySelector hands on)
    s["inherit"] = draw(st.sampled_from([False, False, True]))
    # an inequality constraint g(x) = x0 - c < 0: designs (and neighbours) on both sides of it
    s["constraint"] = draw(st.one_of(st.none(), st.none(), st.sampled_from([0.0, 0.05, 1.0, -2.0])))
    s["retol"] = draw(st.one_of(st.none(), st.none(), st.tuples(
        st.integers(1, 3), st.integers(0, s["n"] - 1), st.sampled_from([0.5, 0.125, 0.01, 2.0]))))
    return s


def objective(s):
    def f(x):
        return [sum(a * xi for a, xi in zip(s["lin"][j], x)) + s["quad"][j] * sum(xi * xi for xi in x)
                for j in range(s["m"])]
    return f


def _problem(s, log, fail_call=None):
    f = objective(s)
    state = {"n": 0, "fired": False}

    def ev(ind):
        k = state["n"]
        state["n"] += 1
        if fail_call is not None and k == fail_call and not state["fired"] and not ind.parents:
            state["fired"] = True          # only a design itself (not one of its neighbours) is made to fail
            raise RuntimeError("injected transient failure")
        log.append(list(ind.vector))
        return f(ind.vector)
    ps = [{"name": "x%d" % i, "bounds": [-5.0, 5.0], "tol": s["tol"][i]} for i in range(s["n"])]
    cs = [{"name": "f%d" % j, "criteria": s["crit"][j]} for j in range(s["m"])]
    c_ = s.get("constraint")
    return make_problem(ps, cs, ev, constraints=(lambda x: [float(x[0]) - c_]) if c_ is not None else None)


def _work_lists_empty(clause, alg, bi):
    """the property's state anchor: the evaluator's work lists (designs pending post-processing) must not outlive a
    batch - otherwise every later batch post-processes all earlier designs again.  Checked where the lists exist."""
    ev = getattr(alg, "evaluator", None)
    # (`to_evaluate` may linger without effect: evaluated designs are skipped by the evaluator; `individuals` is the list
    #  that run() post-processes)
    for name in ("individuals",):
        lst = getattr(ev, name, None)
        if isinstance(lst, list) and lst:
            raise Violation(clause, "work-list-outlives-batch", "after batch %d the evaluator still holds %d designs in "
                            "`%s`: they are post-processed again with every later batch" % (bi, len(lst), name))


def check_worst_case(case):
    from artap.algorithm import EvaluatorType
    from artap.algorithm_genetic import GeneticAlgorithm
    from artap.individual import Individual
    s = case
    n, m = s["n"], s["m"]
    f = objective(s)
    log = []
    prob = _problem(s, log, fail_call=s.get("fail_call"))
    try:
        with guard("worst-case"):
            alg = GeneticAlgorithm(prob, evaluator_type=EvaluatorType.WORST_CASE)
        seen = []   # (individual, children ids, children costs snapshot, tolerances at evaluation time)
        tol = list(s["tol"])
        retol = s.get("retol")
        for bi, batch in enumerate(s["batches"]):
            if retol and bi == retol[0]:
                prob.parameters[retol[1]]["tol"] = retol[2]
                tol[retol[1]] = retol[2]
            before = len(log)
            inds = [Individual(list(v)) for v in batch]
            if s.get("inherit") and seen:
                for ind_ in inds:
                    ind_.features = copy.deepcopy({k_: v_ for k_, v_ in seen[0][0].features.items()})
            again = []
            for r in (s.get("resubmit") or [[]] * (bi + 1))[bi]:
                if seen and all(seen[r % len(seen)][0] is not a for a in again):
                    again.append(seen[r % len(seen)][0])
            with guard("worst-case"):
                alg.evaluate(inds + again)
            for rec in seen:
                if any(rec[0] is a for a in again):
                    # processed again on request: new neighbour objects, built with the tolerances of now
                    rec[1], rec[2], rec[3] = [id(c) for c in rec[0].children], None, list(tol)
            _work_lists_empty("worst-case", alg, bi)
            calls = len(log) - before
            exp_calls = len(batch) * (1 + 2 * n) + len(again) * 2 * n
            if calls != exp_calls:
                raise Violation("worst-case", "call-count:batch%s%s" % ("1" if bi == 0 else "N", ":resubmitted" if again else ""),
                                "batch %d of %d new and %d resubmitted designs (n=%d) made %d objective calls, expected %d" % (
                                    bi, len(batch), len(again), n, calls, exp_calls))
            for ind in inds:
                seen.append([ind, [id(c) for c in ind.children], None, list(tol)])
            for rec in seen:
                ind = rec[0]
                age = "new" if any(ind is i for i in inds) else "resubmitted" if any(ind is a for a in again) else "earlier"
                if len(ind.costs) != m + 1 or len(ind.costs_signed) != m + 2:
                    raise Violation("worst-case", "cost-length:%s" % age,
                                    "after batch %d a design of batch %s has costs %r / signed %r for m=%d" % (
                                        bi, age, ind.costs, ind.costs_signed, m))
                if [id(c) for c in ind.children] != rec[1]:
                    raise Violation("worst-case", "children-replaced:%s" % age, "children objects changed")
                ch = ind.children
                if len(ch) != 2 * n:
                    raise Violation("worst-case", "children-count", "%d children for n=%d" % (len(ch), n))
                expv = []
                for i in range(n):
                    for sg in (-1, 1):
                        v = list(ind.vector)
                        v[i] += sg * rec[3][i]
                        expv.append(v)
                gotv = sorted(tuple(c.vector) for c in ch)
                if gotv != sorted(tuple(v) for v in expv):
                    raise Violation("worst-case", "children-positions%s" % (":retol" if rec[3] != s["tol"] else ""),
                                    "design %r tol %r children %r" % (ind.vector, rec[3], gotv))
                fx = f(ind.vector)
                if list(ind.costs[:m]) != fx:
                    raise Violation("worst-case", "user-costs-changed", "costs %r, f(x)=%r" % (ind.costs, fx))
                snap = [list(c.costs) for c in ch]
                if rec[2] is not None and snap != rec[2]:
                    raise Violation("worst-case", "children-reprocessed", "children costs changed from %r to %r" % (
                        rec[2], snap))
                rec[2] = snap
                for c in ch:
                    if list(c.costs) != f(c.vector):
                        raise Violation("worst-case", "child-costs", "child %r costs %r" % (c.vector, c.costs))
                # signed costs: the user's objectives with their signs, then the (minimised) extra objective, then the marker
                sg = [-1.0 if c_ == "maximize" else 1.0 for c_ in s["crit"]]
                for j in range(m):
                    if not O.round_relation_ok(float(ind.costs_signed[j]), float(ind.costs[j]), sg[j]):
                        raise Violation("worst-case", "signed-costs-order", "costs %r criteria %r -> signed costs %r" % (
                            ind.costs, s["crit"], ind.costs_signed))
                if ind.costs_signed[-2] != ind.costs[-1] and not O.round_relation_ok(
                        float(ind.costs_signed[-2]), float(ind.costs[-1]), 1.0):
                    raise Violation("worst-case", "signed-costs-order", "extra objective %r is not the last signed cost "
                                    "before the marker: %r" % (ind.costs[-1], ind.costs_signed))
                if m == 1:
                    exp = sum(abs(fx[0] - f(c.vector)[0]) for c in ch)
                    got = ind.costs[-1]
                    if abs(got - exp) > 1e-9 * max(1.0, abs(exp)) or ind.features.get("sensitivity") != got \
                            or ind.costs_signed[-2] != got:
                        raise Violation("worst-case", "sensitivity-value",
                                        "x=%r: extra cost %r, feature %r, signed %r; sum|f(x)-f(child)| = %r" % (
                                            ind.vector, got, ind.features.get("sensitivity"), ind.costs_signed, exp))
                else:
                    got = ind.costs[-1]
                    if not (isinstance(got, (int, float)) and got >= 0 and math.isfinite(got)):
                        raise Violation("worst-case", "sensitivity-domain", "extra cost %r" % (got,))
            if s.get("forget"):
                del seen[:], inds[:]
                ind = rec = ch = c = None
                del prob.individuals[:]
                gc.collect()
    finally:
        dispose(prob)
    nb = len(s["batches"])
    return {"nt": nb >= 2, "classes": ["batches%d" % nb, "m%d" % m, "n%d" % n] + (["forget"] if s.get("forget") else []) + (["resubmit"] if any(s.get("resubmit") or []) else []) + (["inherited-features"] if s.get("inherit") and nb > 1 else []) + (
                ["constrained"] if s.get("constraint") is not None else [])
            + (["retol"] if retol and retol[0] < nb else [])}


def check_gradient(case):
    from artap.algorithm import EvaluatorType
    from artap.algorithm_genetic import GeneticAlgorithm
    from artap.individual import Individual
    s = case
    n, m = s["n"], s["m"]
    f = objective(s)
    log = []
    prob = _problem(s, log)
    delta = 1e-4
    try:
        with guard("gradient"):
            alg = GeneticAlgorithm(prob, evaluator_type=EvaluatorType.GRADIENT)
        seen = []
        for bi, batch in enumerate(s["batches"]):
            before = len(log)
            inds = [Individual(list(v)) for v in batch]
            again = []
            for r in (s.get("resubmit") or [[]] * (bi + 1))[bi]:
                if seen and all(seen[r % len(seen)] is not a for a in again):
                    again.append(seen[r % len(seen)])
            with guard("gradient"):
                alg.evaluate(inds + again)
            _work_lists_empty("gradient", alg, bi)
            calls = len(log) - before
            if calls != len(batch) * (n + 1) + len(again) * n:
                raise Violation("gradient", "call-count:batch%s%s" % ("1" if bi == 0 else "N", ":resubmitted" if again else ""),
                                "batch %d of %d new and %d resubmitted designs (n=%d) made %d calls, expected %d" % (
                                    bi, len(batch), len(again), n, calls, len(batch) * (n + 1) + len(again) * n))
            seen.extend(inds)
            for ind in seen:
                g = ind.features.get("gradient")
                if g is None or len(g) != n:
                    raise Violation("gradient", "gradient-missing", "gradient feature %r" % (g,))
                fx = f(ind.vector)
                if list(ind.costs[:m]) != fx or len(ind.costs) != m:
                    raise Violation("gradient", "costs", "costs %r, f(x)=%r" % (ind.costs, fx))
                for i in range(n):
                    v = list(ind.vector)
                    v[i] += delta
                    fd = (f(v)[0] - fx[0]) / delta
                    scale = max(1.0, abs(fd), abs(fx[0]) / delta * 1e-12)
                    if abs(float(g[i]) - fd) > 1e-6 * scale:
                        raise Violation("gradient", "gradient-value", "x=%r i=%d gradient %r, forward difference %r" % (
                            ind.vector, i, float(g[i]), fd))
    finally:
        dispose(prob)
    nb = len(s["batches"])
    return {"nt": nb >= 2, "classes": ["batches%d" % nb, "m%d" % m, "n%d" % n]}


# ---------------------------------------------------------------- runs

@st.composite
def run_cases(draw):
    s = draw(setup())
    s["alg"] = draw(st.sampled_from(["NSGAII", "EpsMOEA"]))
    s["ev"] = draw(st.sampled_from(["WORST_CASE", "WORST_CASE", "GRADIENT"]))
    s["N"] = draw(st.integers(2, 6))
    s["G"] = draw(st.integers(2, 4))
    s["seed"] = draw(st.integers(0, 2 ** 31))
    return s


def check_run(case):
    from artap.algorithm import EvaluatorType
    from artap.algorithm_genetic import EpsMOEA
    from artap.algorithm_NSGAII import NSGAII
    s = case
    n, m = s["n"], s["m"]
    f = objective(s)
    log = []
    prob = _problem(s, log)
    seed_all(s["seed"])
    try:
        with guard("run"):
            cls = NSGAII if s["alg"] == "NSGAII" else EpsMOEA
            alg = cls(prob, evaluator_type=getattr(EvaluatorType, s["ev"]))
            alg.options["max_population_size"] = s["N"]
            alg.options["max_population_number"] = s["G"]
            alg.run()
        if not prob.individuals:
            raise Violation("run", "nothing-recorded", "no individuals recorded")
        for ind in prob.individuals:
            if s["ev"] == "WORST_CASE":
                if len(ind.costs) != m + 1 or len(ind.costs_signed) != m + 2:
                    raise Violation("run", "cost-length:%s" % s["alg"],
                                    "%s run N=%d G=%d: generation %r design has costs %r signed %r for m=%d" % (
                                        s["alg"], s["N"], s["G"], ind.population_id, ind.costs, ind.costs_signed, m))
                fx = f(ind.vector)
                if list(ind.costs[:m]) != fx:
                    raise Violation("run", "user-costs", "costs %r f(x) %r" % (ind.costs, fx))
                if m == 1 and len(ind.children) == 2 * n:
                    exp = sum(abs(fx[0] - f(c.vector)[0]) for c in ind.children)
                    if abs(ind.costs[-1] - exp) > 1e-9 * max(1.0, abs(exp)):
                        raise Violation("run", "sensitivity-value", "extra cost %r expected %r" % (ind.costs[-1], exp))
            else:
                g = ind.features.get("gradient")
                if g is not None:
                    fx = f(ind.vector)
                    for i in range(n):
                        v = list(ind.vector)
                        v[i] += 1e-4
                        fd = (f(v)[0] - fx[0]) / 1e-4
                        if abs(float(g[i]) - fd) > 1e-6 * max(1.0, abs(fd), abs(fx[0]) * 1e-8):
                            raise Violation("run", "gradient-value", "gradient %r fd %r" % (float(g[i]), fd))
    finally:
        dispose(prob)
    return {"nt": True, "classes": [s["alg"], s["ev"], "G%d" % s["G"]]}


CLAUSES = [
    Clause("worst-case", batch_history(), check_worst_case, quick=400, thorough=4000, quick_shards=2),
    Clause("gradient", batch_history(), check_gradient, quick=300, thorough=3000, quick_shards=2),
    Clause("run", run_cases(), check_run, quick=40, thorough=150, quick_shards=4),
]
