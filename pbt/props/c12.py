"""C12 - space-filling samplers have their defining coverage structure."""
import math
import itertools
from collections import Counter
from hypothesis import strategies as st

from ..core import Clause, Enum, Violation, guard, ulp
from .. import oracles as O
from ..harness import seed_all, Patched, pname, NAME_STYLES
from .c08 import SeededRS

PROPERTY = "C12"
LEVEL = "exploration"
RULE = ("parameter counts 1..6 (Halton ..12), boxes with lower bound in +-[0,1e6] and width 1e-2..1e9 (>= 1e-9*|bound| "
        "so that strata/levels are distinguishable), N=1..40 (Halton ..200 plus base^k and base^k+-1 up to 5200; grid k=2..6 (k..20 for d<=2) with k^d<=4096), seeds through "
        "a RandomState shim; LHS: sorted column i-th value in stratum i; Halton: point i coordinate j == lb + "
        "radical_inverse(i, prime_j)*width with exact Fractions; Uniform: exact product of k levels; Random: N rows "
        "in bounds. Non-trivial = N>=3 and d>=2; for Halton additionally an index >= base^2 of the largest base")
ASSUMPTIONS = ["position tolerance 1e-12*width + 4 ulp(max|bound|); stratum tolerance 1e-9*width",
               "numpy.random.RandomState() (unseeded in artap.doe.lhs) is replaced by a seeded subclass in the harness"]


@st.composite
def box12(draw):
    lb_mag = draw(st.one_of(st.just(0.0), st.floats(1e-3, 1e6), st.sampled_from([1.0, 1e6, 5.0])))
    lb = lb_mag * draw(st.sampled_from([1.0, -1.0]))
    width = draw(st.one_of(st.sampled_from([1.0, 10.0, 2.0, 0.5]), st.floats(-2.0, 9.0).map(lambda e: 10.0 ** e)))
    return [lb, lb + width]


@st.composite
def cases(draw, kind):
    if kind == "halton":
        d = draw(st.integers(1, 12))
        # digit-count boundaries of the radical inverse: N = base^k and its neighbours, for the bases in use
        pw = sorted({b ** e + o for b in O.primes(d) for e in range(1, 14) for o in (-1, 0, 1)
                     if 1 <= b ** e + o <= (5200 if d <= 7 else 2300)})
        N = draw(st.one_of(st.integers(1, 200), st.integers(1, 200), st.sampled_from(pw)))
    elif kind == "uniform":
        d = draw(st.integers(1, 5))
        kmax = max(2, min(20 if d <= 2 else 6, int(4096 ** (1.0 / d))))
        N = draw(st.integers(2, kmax))
    else:
        d = draw(st.integers(1, 6))
        N = draw(st.integers(1, 40))
    boxes = [draw(box12()) for _ in range(d)]
    extra = {}
    if kind == "random" and draw(st.integers(0, 2)) == 0:
        # integer parameters (integer bounds; ranges below zero, above zero and across it)
        ptype = []
        for j in range(d):
            if draw(st.booleans()):
                lo = draw(st.integers(-20, 15))
                boxes[j] = [lo, lo + draw(st.integers(1, 12))]
                ptype.append("integer")
            else:
                ptype.append("real")
        extra["ptype"] = ptype
    if kind in ("lhs", "halton") and draw(st.integers(0, 3)) == 0:
        # a declared rounding precision on the parameters does not change what these two designs are
        extra["prec"] = [draw(st.sampled_from([None, 1e-3, 0.1, 0.25, 0.5])) for _ in range(d)]
    if kind in ("lhs", "halton", "uniform", "random") and "ptype" not in extra and draw(st.integers(0, 3)) == 0:
        # the generator object was used before, on other bounds; then the bounds were edited ("rebind" a new list /
        # edit the list "inplace") and generate() is called again: the design belongs to the bounds declared now
        extra["before"] = {"boxes": [draw(box12()) for _ in range(d)], "how": draw(st.sampled_from(["rebind", "inplace"]))}
    return dict({"kind": kind, "boxes": boxes, "N": N, "seed": draw(st.integers(0, 2 ** 31)),
                 "names": draw(st.sampled_from(NAME_STYLES))}, **extra)


def _tol(lb, ub):
    return 1e-12 * (ub - lb) + 4 * ulp(max(abs(lb), abs(ub)))


def check_sampler(case):
    import numpy as np
    import artap.operators as ops
    kind, boxes, N = case["kind"], case["boxes"], case["N"]
    d = len(boxes)
    ps = [{"name": pname(i, case.get("names", "x")), "bounds": list(b)} for i, b in enumerate(boxes)]
    ptype = case.get("ptype") or ["real"] * d
    for p_, t_, q_ in zip(ps, ptype, case.get("prec") or [None] * d):
        if t_ != "real":
            p_["parameter_type"] = t_
        if q_:
            p_["precision"] = q_
    seed_all(case["seed"])
    cls = {"lhs": ops.LHSGenerator, "halton": ops.HaltonGenerator, "uniform": ops.UniformGenerator,
           "random": ops.RandomGenerator}[kind]
    with Patched((np.random, "RandomState", SeededRS(case["seed"]))):
        with guard(kind):
            bef = case.get("before")
            if bef:
                for p_, b_ in zip(ps, bef["boxes"]):
                    p_["bounds"] = list(b_)
            g = cls(ps)
            g.init(N)
            if bef:
                g.generate()
                for p_, b_ in zip(ps, boxes):
                    if bef["how"] == "rebind":
                        p_["bounds"] = list(b_)
                    else:
                        p_["bounds"][0], p_["bounds"][1] = b_[0], b_[1]
                seed_all(case["seed"])
            raw = [list(v) for v in g.generate()]
            vs = [list(map(float, v)) for v in raw]
    exp_rows = N ** d if kind == "uniform" else N
    if len(vs) != exp_rows:
        raise Violation(kind, "row-count", "%s(N=%d, d=%d) returned %d designs, expected %d" % (
            kind, N, d, len(vs), exp_rows))
    if any(len(v) != d for v in vs):
        raise Violation(kind, "coordinate-count", "a design has %r coordinates for %d parameters" % (
            [len(v) for v in vs if len(v) != d][:1], d))
    if any(x != x or math.isinf(x) for v in vs for x in v):
        raise Violation(kind, "non-finite", "non-finite coordinate")
    nt = N >= 3 and d >= 2
    if kind == "lhs":
        for j, (lb, ub) in enumerate(boxes):
            w = ub - lb
            col = sorted(v[j] for v in vs)
            for i, x in enumerate(col):
                lo, hi = lb + i * w / N, lb + (i + 1) * w / N
                t = 1e-9 * w + 4 * ulp(max(abs(lb), abs(ub)))
                if not (lo - t <= x <= hi + t):
                    raise Violation(kind, "stratum", "parameter %d box %r N=%d: %d-th smallest sample %r not in stratum "
                                    "[%r, %r]; column %r" % (j, boxes[j], N, i, x, lo, hi, col))
    elif kind == "halton":
        pr = O.primes(d)
        for i, v in enumerate(vs, start=1):
            for j, (lb, ub) in enumerate(boxes):
                num, den = O.radical_inverse_ratio(i, pr[j])      # exact rational, one correctly rounded division
                exp = lb + (num / den) * (ub - lb)
                if abs(v[j] - exp) > _tol(lb, ub):
                    raise Violation(kind, "radical-inverse", "point %d coordinate %d (base %d) = %r, expected %r; box %r" % (
                        i, j, pr[j], v[j], exp, boxes[j]))
        nt = nt and N >= pr[-1] ** 2
    elif kind == "uniform":
        levels = [[lb + i * (ub - lb) / (N - 1) for i in range(N)] for lb, ub in boxes]
        want = Counter(itertools.product(*[range(N)] * d))
        got = Counter()
        for v in vs:
            idx = []
            for j, x in enumerate(v):
                lb, ub = boxes[j]
                hit = [i for i, L in enumerate(levels[j]) if abs(x - L) <= _tol(lb, ub)]
                if len(hit) != 1:
                    raise Violation(kind, "level", "coordinate %r of parameter %d is not one of the %d levels of %r" % (
                        x, j, N, boxes[j]))
                idx.append(hit[0])
            got[tuple(idx)] += 1
        if got != want:
            raise Violation(kind, "grid-combinations", "k=%d d=%d: combinations missing %r / repeated %r" % (
                N, d, list((want - got).keys())[:3], [k for k, c in got.items() if c > 1][:3]))
    else:
        for v, rv in zip(vs, raw):
            for j, (x, (lb, ub)) in enumerate(zip(v, boxes)):
                t = 1e-12 + 4 * ulp(max(abs(lb), abs(ub)))
                if ptype[j] == "integer":
                    t = 0
                    if isinstance(rv[j], bool) or x != int(x):
                        raise Violation(kind, "integer-parameter-not-integral", "%r for an integer parameter %r" % (
                            rv[j], (lb, ub)))
                if not (lb - t <= x <= ub + t):
                    raise Violation(kind, "out-of-box%s" % (":integer" if ptype[j] == "integer" else ""),
                                    "%r outside %r" % (x, (lb, ub)))
    return {"nt": nt, "classes": ["d%d" % d, "N>=3" if N >= 3 else "N<3"] + (["integer-parameters"] if "ptype" in case else [])
            + (["declared-precision"] if case.get("prec") and any(case["prec"]) else [])
            + (["generator-reused-after-bounds-edit"] if case.get("before") else [])}


def halton_boundary_items(tier):
    """every N = base^k, base^k +- 1 (<= 5200) for the twelve bases in use, with all twelve parameters at once"""
    ns = sorted({b ** e + o for b in O.primes(12) for e in range(1, 14) for o in (-1, 0, 1) if 1 <= b ** e + o <= 5200})
    for n in ns:
        yield {"kind": "halton", "boxes": [[0.0, 1.0]] * 11 + [[-3.0, 5.0]], "N": n, "seed": 1}


CLAUSES = [
    Clause("lhs", cases("lhs"), check_sampler, quick=800, thorough=8000, quick_shards=2),
    Clause("halton", cases("halton"), check_sampler, quick=600, thorough=6000, quick_shards=2),
    Clause("uniform", cases("uniform"), check_sampler, quick=500, thorough=5000, quick_shards=2),
    Clause("random", cases("random"), check_sampler, quick=800, thorough=8000),
]
ENUMS = [
    Enum("halton-boundaries", halton_boundary_items, check_sampler, tiers=("quick", "thorough"), chunk=12,
         exhaustive_note="all sample counts base^k and base^k +- 1 up to 5200 for the first twelve prime bases, 12 parameters"),
]
