"""C20 - design-point equality means equal coordinates and agrees with hashing."""
import random
from hypothesis import strategies as st

from ..core import Clause, Enum, Violation, guard
from ..harness import Patched, mk_ind, params

PROPERTY = "C20"
LEVEL = "exploration"
RULE = ("pairs (a,b): b is a with a drawn subset of coordinates moved by delta in {0, <=1e-11, >=1e-9..1e6} (nothing "
        "within a factor 5 of the 1e-10 threshold); lists/sets/removals over pools of pairwise separated designs with "
        "repeats; call sites Archive.remove, pop_acceptance, nondominated_truncate, GeneticAlgorithm.generate driven "
        "by scripted children. Non-trivial = the vectors agree in the last coordinate and differ elsewhere (pairs) / "
        "the pool contains two designs that agree in the last coordinate or collide in hash (containers, call sites)")
ASSUMPTIONS = ["coordinates are ints or finite floats with |x| <= 1e6",
               "differences in the open interval (2e-11, 5e-10) around the documented 1e-10 threshold are not generated"]

SPECIAL = [-2.0, -1.0, 0.0, 1.0, 2.0, -1, 0, 1, 3.0, 0.5]
coord = st.one_of(
    st.sampled_from(SPECIAL),
    st.integers(-5, 5),
    st.floats(-10, 10, allow_nan=False, allow_infinity=False),
    st.floats(-1e6, 1e6, allow_nan=False, allow_infinity=False),
)
delta = st.one_of(
    st.just(0.0),
    st.floats(0, 1e-11),
    st.floats(1e-9, 1e-6),
    st.floats(1e-6, 1.0),
    st.floats(1.0, 1e6),
    st.sampled_from([1.0, 2.0, 1e-9, 8.0]),
)
sign = st.sampled_from([1.0, -1.0])


@st.composite
def pair_cases(draw):
    n = draw(st.integers(1, 8))
    a = draw(st.lists(coord, min_size=n, max_size=n))
    mode = draw(st.sampled_from(["subset", "first", "middle", "all_but_last", "last", "none", "independent"]))
    if mode == "independent":
        b = draw(st.lists(coord, min_size=n, max_size=n))
        return {"a": a, "b": b, "mode": mode}
    if mode == "subset":
        idx = draw(st.sets(st.integers(0, n - 1)))
    elif mode == "first":
        idx = {0}
    elif mode == "middle":
        idx = {n // 2}
    elif mode == "all_but_last":
        idx = set(range(n - 1))
    elif mode == "last":
        idx = {n - 1}
    else:
        idx = set()
    b = list(a)
    for i in sorted(idx):
        d = draw(delta) * draw(sign)
        v = a[i] + d
        diff = abs(v - a[i])
        if 2e-11 < diff < 5e-10:   # too close to the threshold to have a defined answer: leave the coordinate alone
            v = a[i]
        b[i] = v
    # a design read back from a data store keeps its stored id, which can coincide with the id of a new design
    return {"a": a, "b": b, "mode": mode, "same_id": draw(st.integers(0, 3)) == 0}


def expected_equal(a, b):
    return all(abs(x - y) < 1e-10 for x, y in zip(a, b))


def check_pair(case):
    from artap.individual import Individual
    a, b = case["a"], case["b"]
    # ambiguous zone guard for the independent mode
    diffs = [abs(x - y) for x, y in zip(a, b)]
    if any(2e-11 < d < 5e-10 for d in diffs):
        return {"nt": False, "classes": ["skipped-threshold"]}
    exp = expected_equal(a, b)
    with guard("eq"):
        ia, ib = Individual(list(a)), Individual(list(b))
        if case.get("same_id"):
            ib.id = ia.id            # what Individual.from_dict does with a stored id
        r1 = (ia == ib)
        r2 = (ib == ia)
    if bool(r1) != exp:
        where = [i for i, d in enumerate(diffs) if d >= 1e-10]
        raise Violation("eq", "eq-wrong:%s" % ("says-equal" if r1 else "says-unequal"),
                        "Individual(%r) == Individual(%r) gave %r, coordinates differing: %r" % (a, b, r1, where))
    if bool(r1) != bool(r2):
        raise Violation("eq", "eq-asymmetric", "a==b is %r but b==a is %r for %r, %r" % (r1, r2, a, b))
    if a == b:
        with guard("eq"):
            ha, hb = hash(ia), hash(ib)
        if ha != hb:
            raise Violation("eq", "hash-differs", "identical vectors %r hash differently" % (a,))
    differs_elsewhere = len(a) > 1 and diffs[-1] < 1e-10 and any(d >= 1e-10 for d in diffs[:-1])
    cls = ["equal" if exp else "unequal", "mode:" + case["mode"]]
    if differs_elsewhere:
        cls.append("same-last-differs-elsewhere")
    return {"nt": differs_elsewhere, "classes": cls}


# ---------------------------------------------------------------- containers

@st.composite
def pool_cases(draw):
    n = draw(st.integers(1, 5))
    k = draw(st.integers(1, 6))
    base = draw(st.lists(coord, min_size=n, max_size=n))
    pool = [list(base)]
    for _ in range(k - 1):
        kind = draw(st.sampled_from(["fresh", "first", "notlast", "collide"]))
        src = list(pool[draw(st.integers(0, len(pool) - 1))])
        if kind == "fresh":
            v = draw(st.lists(coord, min_size=n, max_size=n))
        elif kind == "first":
            v = src
            v[0] = v[0] + draw(st.sampled_from([1.0, -1.0, 0.25, 1e-6, 7.0, 3e-9, 2e-8]))
        elif kind == "notlast":
            v = src
            if n > 1:
                i = draw(st.integers(0, n - 2))
                v[i] = v[i] + draw(st.sampled_from([1.0, -1.0, 0.25, 1e-6, 7.0, 3e-9, 2e-8]))
            else:
                v[0] = v[0] + 1.0
        else:  # hash(-1.0) == hash(-2.0) in CPython
            v = src
            i = draw(st.integers(0, n - 1))
            v[i] = -1.0 if v[i] == -2.0 else -2.0
        pool.append(v)
    # keep only pairwise separated designs (>= 1e-9 apart in some coordinate)
    sep = []
    for v in pool:
        if all(any(abs(x - y) >= 1e-9 for x, y in zip(v, w)) for w in sep):
            sep.append(v)
    seq = draw(st.lists(st.integers(0, len(sep) - 1), min_size=1, max_size=10))
    probe = draw(st.integers(0, len(sep) - 1))
    probe_fresh = draw(st.booleans())
    k_trunc = draw(st.integers(1, 12))
    return {"pool": sep, "seq": seq, "probe": probe, "probe_fresh": probe_fresh, "k": k_trunc}


def _pool_nt(pool):
    for i in range(len(pool)):
        for j in range(i + 1, len(pool)):
            a, b = pool[i], pool[j]
            if len(a) > 1 and abs(a[-1] - b[-1]) < 1e-10:
                return True
            if hash(tuple(a)) == hash(tuple(b)):
                return True
    return False


def check_containers(case):
    from artap.individual import Individual
    pool, seq, probe = case["pool"], case["seq"], case["probe"]
    with guard("containers"):
        lst = [Individual(list(pool[i])) for i in seq]
        x = Individual(list(pool[probe]))
        got_in = x in lst
    exp_in = probe in seq
    if got_in != exp_in:
        raise Violation("containers", "membership", "Individual(%r) in list of %r -> %r, expected %r" % (
            pool[probe], [pool[i] for i in seq], got_in, exp_in))
    with guard("containers"):
        s = set(lst)
    if len(s) != len(set(seq)):
        raise Violation("containers", "set-size", "set() over designs %r has %d members, %d distinct designs" % (
            [pool[i] for i in seq], len(s), len(set(seq))))
    kept = sorted(seq.index(i) for i in set(seq))   # any representative is fine: compare designs
    got_designs = sorted(tuple(i.vector) for i in s)
    if got_designs != sorted(tuple(pool[i]) for i in set(seq)):
        raise Violation("containers", "set-content", "set() content %r != distinct designs" % (got_designs,))
    # remove: removes the first equal design, nothing else
    with guard("containers"):
        work = list(lst)
        raised = False
        try:
            work.remove(x)
        except ValueError:
            raised = True
    if raised != (not exp_in):
        raise Violation("containers", "remove-raise", "list.remove on %r: raised=%r expected member=%r" % (
            pool[probe], raised, exp_in))
    if exp_in:
        first = seq.index(probe)
        exp_ids = [id(o) for k, o in enumerate(lst) if k != first]
        if [id(o) for o in work] != exp_ids:
            gone = [k for k, o in enumerate(lst) if all(o is not w for w in work)]
            raise Violation("containers", "remove-wrong", "list.remove(%r) removed position(s) %r of %r, expected %d" % (
                pool[probe], gone, [pool[i] for i in seq], first))
    # designs move: after the objects above have been hashed and compared, every one of them is moved IN PLACE
    # (coordinate by coordinate, as position updates and clipping do) onto the design of the probe; now they are all
    # the same design point - equal, hashing alike, one member in a set
    with guard("containers"):
        for o in lst:
            for t_ in range(len(o.vector)):
                o.vector[t_] = pool[probe][t_]
        moved_eq = all(o == x and x == o for o in lst)
        hashes = {hash(o) for o in lst} | {hash(x)}
        s2 = set(lst + [x])
    if not moved_eq:
        raise Violation("containers", "moved-design-unequal", "objects moved in place onto %r do not compare equal to it" % (
            pool[probe],))
    if len(hashes) != 1:
        raise Violation("containers", "moved-design-hash", "objects moved in place onto the same design %r have %d "
                        "different hashes" % (pool[probe], len(hashes)))
    if len(s2) != 1:
        raise Violation("containers", "moved-design-set", "set() over %d objects holding the design %r has %d members" % (
            len(lst) + 1, pool[probe], len(s2)))
    return {"nt": _pool_nt(pool), "classes": ["pool%d" % len(pool), "member" if exp_in else "absent"]}


# ---------------------------------------------------------------- call sites

def check_sites(case):
    from artap.individual import Individual
    from artap.archive import Archive
    from artap.operators import TournamentSelector, ParetoDominance, nondominated_truncate
    import artap.operators as ops
    pool, seq, probe, k = case["pool"], case["seq"], case["probe"], case["k"]
    distinct = []
    for i in seq:
        if i not in distinct:
            distinct.append(i)
    classes = []
    # (1) Archive.remove: archive content = distinct designs, mutually non-dominated costs (antichain)
    with guard("sites"):
        arch = Archive(dominance=ParetoDominance())
        members = []
        for r, i in enumerate(distinct):
            ind = Individual(list(pool[i]))
            ind.costs_signed = [float(r), float(-r), True]
            arch.add(ind)
            members.append(ind)
    if len(arch) != len(distinct):
        raise Violation("sites", "archive-setup", "antichain of %d members gave archive of %d" % (len(distinct), len(arch)))
    target = distinct[probe % len(distinct)]
    tpos = distinct.index(target)
    with guard("sites"):
        if case["probe_fresh"]:
            ok = arch.remove(Individual(list(pool[target])))
        else:
            ok = arch.remove(members[tpos])
    left = [id(o) for o in arch]
    exp_left = [id(o) for r, o in enumerate(members) if r != tpos]
    if ok is not True or left != exp_left:
        raise Violation("sites", "archive-remove", "Archive.remove(%r) over designs %r returned %r and left %r" % (
            pool[target], [pool[i] for i in distinct], ok, [o.vector for o in arch]))
    with guard("sites"):
        ok2 = arch.remove(Individual(list(pool[target])))
    if ok2 is not False or [id(o) for o in arch] != exp_left:
        raise Violation("sites", "archive-remove-absent", "removing an absent design %r returned %r / changed content" % (
            pool[target], ok2))
    classes.append("archive")
    # (2) pop_acceptance with an incomparable offspring: removes exactly the member random.choice picked
    if len(distinct) >= 1:
        with guard("sites"):
            sel = TournamentSelector(params([(0, 1)] * len(pool[0])))
            popl = []
            for r, i in enumerate(distinct):
                ind = Individual(list(pool[i]))
                ind.costs_signed = [float(r), float(-r), True]
                popl.append(ind)
            off = Individual([9e9] * len(pool[0]))
            off.costs_signed = [-0.5, 0.5, True]   # incomparable with every member (r, -r)
        chosen = []
        real_choice = random.choice

        def rec_choice(seq_):
            c = real_choice(seq_)
            chosen.append(c)
            return c
        before = list(popl)
        random.seed(case["k"] * 7919 + probe)
        with Patched((ops.random, "choice", rec_choice)):
            with guard("sites"):
                sel.pop_acceptance(popl, off)
        if True:
            if len(popl) != len(before):
                raise Violation("sites", "acceptance-size", "population size %d -> %d" % (len(before), len(popl)))
            gone = [o for o in before if all(o is not w for w in popl)]
            if len(gone) == 1 and popl[-1] is off:
                if chosen and isinstance(chosen[-1], Individual) and gone[0] is not chosen[-1]:
                    raise Violation("sites", "acceptance-removed-other",
                                    "pop_acceptance chose %r for replacement but removed %r" % (
                                        chosen[-1].vector, gone[0].vector))
                classes.append("acceptance-replaced")
            elif len(gone) == 0:
                classes.append("acceptance-rejected")
            else:
                raise Violation("sites", "acceptance-shape", "members gone: %r" % ([g.vector for g in gone],))
    # (3) nondominated_truncate over distinct designs never merges two of them
    with guard("sites"):
        popl = []
        for r, i in enumerate(seq):
            ind = Individual(list(pool[i]))
            ind.costs_signed = [float(i), float(-i), True]
            ind.features["front_number"] = 1
            ind.features["crowding_distance"] = float(r % 3)
            popl.append(ind)
        res = nondominated_truncate(popl, k)
    exp_len = min(k, len(distinct))
    designs = [tuple(o.vector) for o in res]
    if len(res) != exp_len or len(set(designs)) != len(designs):
        raise Violation("sites", "truncate-dedup", "truncate(%r, %d) returned designs %r; %d distinct designs offered" % (
            [pool[i] for i in seq], k, designs, len(distinct)))
    classes.append("truncate")
    return {"nt": _pool_nt(pool), "classes": classes}


# ---------------------------------------------------------------- offspring generation

@st.composite
def generate_cases(draw):
    c = draw(pool_cases())
    n_pop = draw(st.integers(2, 6))   # N >= 2 (C09); N == 1 is outside the documented domain
    # script = indices into the pool (children in the order the operators will emit them)
    pool = [list(v) for v in c["pool"]]
    # the same design again up to numerical noise: every coordinate within 1e-10 (3e-11 / 8e-11 off), although the
    # Euclidean distance of the two vectors may exceed 1e-10; only for coordinates of moderate size (ulp << 1e-11)
    for _ in range(draw(st.integers(0, 2))):
        src = pool[draw(st.integers(0, len(c["pool"]) - 1))]
        if all(abs(x) <= 100.0 for x in src):
            pool.append([x + draw(st.sampled_from([0.0, 3e-11, -3e-11, 8e-11, -8e-11, 8e-11])) for x in src])
    script = draw(st.lists(st.integers(0, len(pool) - 1), min_size=2, max_size=16))
    return {"pool": pool, "script": script, "N": n_pop}


def check_generate(case):
    from artap.individual import Individual
    from artap.algorithm_genetic import GeneticAlgorithm
    from ..harness import make_problem, dispose
    pool, script, N = case["pool"], case["script"], case["N"]
    dim = len(pool[0])
    # children emitted pairwise (child1, child2); after the script: endless fresh distinct designs
    emitted = []

    def child_stream():
        for i in script:
            yield list(pool[i]), ("pool", i)
        j = 0
        while True:
            j += 1
            yield [1e7 + j] * dim, ("fresh", j)
    stream = child_stream()

    class Cross:
        def cross(self, v1, v2):
            a, b = next(stream), next(stream)
            emitted.append(a)
            emitted.append(b)
            return list(a[0]), list(b[0])

    class Mut:
        def mutate(self, v, other=None):
            return list(v)

    class Sel:
        def select(self, parents):
            return parents[0]

    prob = make_problem(params([(-1e9, 1e9)] * dim), [{"name": "f", "criteria": "minimize"}], lambda ind: [0.0])
    try:
        with guard("generate"):
            alg = GeneticAlgorithm(prob)
            alg.options["max_population_size"] = N
            alg.selector, alg.crossover, alg.mutator = Sel(), Cross(), Mut()
            offs = alg.generate([Individual([0.0] * dim)])
    finally:
        dispose(prob)
    # oracle: walk the emitted children in order, keep a child iff its design was not kept before, stop at N
    # (the last slot is always filled by the next first-child, as the code documents "always create new individual"
    #  only for an empty list: a duplicate child1 is skipped while the list is short)
    kept = []
    for vec, key in emitted:
        if len(kept) >= N:
            break
        if any(expected_equal(vec, w) for w in kept):
            continue
        kept.append(vec)
    got = [list(o.vector) for o in offs]
    if len(got) != N:
        raise Violation("generate", "generate-size", "generate returned %d offspring for N=%d" % (len(got), N))
    if got != kept:
        # distinguish: a distinct design discarded vs. a duplicate kept
        dup = any(expected_equal(got[i], got[j]) for i in range(len(got)) for j in range(i))
        raise Violation("generate", "generate-kept-duplicate" if dup else "generate-dropped-distinct",
                        "children %r, N=%d -> offspring %r, expected %r" % ([e[0] for e in emitted], N, got, kept))
    rep = len(set(script)) < len(script)
    noisy = any(pool[i] != pool[j] and expected_equal(pool[i], pool[j]) for i in set(script) for j in set(script))
    return {"nt": _pool_nt(pool) and rep, "classes": ["repeat-in-script" if rep else "no-repeat", "N%d" % N] + (
        ["repeat-up-to-noise"] if noisy else [])}


CLAUSES = [
    Clause("eq", pair_cases(), check_pair, quick=20000, thorough=50000, quick_shards=4),
    Clause("containers", pool_cases(), check_containers, quick=3000, thorough=40000, quick_shards=2),
    Clause("sites", pool_cases(), check_sites, quick=2000, thorough=20000, quick_shards=2),
    Clause("generate", generate_cases(), check_generate, quick=600, thorough=6000, quick_shards=2),
]
