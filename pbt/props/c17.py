"""C17 - result queries and quality indicators are faithful views of the recorded data."""
import math
from collections import Counter
from hypothesis import strategies as st

from ..core import Clause, Enum, Violation, guard
from .. import oracles as O
from ..harness import make_problem, dispose

PROPERTY = "C17"
LEVEL = "exploration"
RULE = ("a problem whose individuals list is filled by the harness: 1..30 individuals (0 for the queries that accept "
        "an empty record), population tags >= 0 drawn with repeats, gaps and arbitrary order, vectors and costs from "
        "small grids (duplicates) or floats, min/max criteria per cost, front numbers; every Results query is compared "
        "with a direct computation over the recorded list. Indicators: 1..8 points, 1..4 dims, dyadic values (exact) "
        "and separated floats; shifted copies ref+d. Non-trivial (queries) = >= 2 tags in unsorted order, or a "
        "maximised goal, or duplicate parameter values under sorting; (indicators) = >= 2 reference and >= 2 computed "
        "points in >= 2 dimensions")
ASSUMPTIONS = ["population tag -1 means 'last generation' in the API, so recorded tags are >= 0",
               "costs()/find_optimum() are asked only on non-empty records (they index the first individual)",
               "values are finite (no NaN)"]

val = st.one_of(st.integers(0, 3).map(float), st.integers(-2, 2), st.floats(-100, 100, allow_nan=False).map(
    lambda x: round(x, 3)))


# costs that coincide in their first seven decimals (the stored signed costs are rounded there, the costs are not)
near = st.builds(lambda b, k: b + k * 1e-8, st.integers(0, 2).map(float), st.integers(-4, 4))


@st.composite
def record(draw):
    n = draw(st.integers(1, 3))
    m = draw(st.integers(1, 3))
    crit = [draw(st.sampled_from(["minimize", "maximize", None])) for _ in range(m)]
    k = draw(st.integers(0, 30))
    cval = draw(st.sampled_from([val, val, near]))
    # the individuals were evaluated by artap (signed costs filled in as Job.evaluate does) or only carry costs
    signed = draw(st.booleans()) and all(c is not None for c in crit)
    tag_pool = draw(st.lists(st.integers(0, 12), min_size=1, max_size=5, unique=True))
    tag_mode = draw(st.sampled_from(["blocks", "shuffled", "single"]))
    inds = []
    for i in range(k):
        if tag_mode == "single":
            t = tag_pool[0]
        elif tag_mode == "blocks":
            t = tag_pool[(i * len(tag_pool)) // max(k, 1)]
        else:
            t = draw(st.sampled_from(tag_pool))
        inds.append({"v": [draw(val) for _ in range(n)], "c": [draw(cval) for _ in range(m)], "t": t,
                     "front": draw(st.integers(1, 3))})
    q = {"pop": draw(st.sampled_from([-1] + tag_pool + [99])),
         "pi": draw(st.integers(0, n - 1)), "pj": draw(st.integers(0, n - 1)), "gi": draw(st.integers(0, m - 1)),
         "sorted": draw(st.booleans())}
    return {"n": n, "m": m, "crit": crit, "inds": inds, "q": q, "signed": signed}


def _build(case):
    from artap.individual import Individual
    n, m = case["n"], case["m"]
    ps = [{"name": "p%d" % i, "bounds": [-100, 100]} for i in range(n)]
    cs = []
    for j, c in enumerate(case["crit"]):
        d = {"name": "g%d" % j}
        if c is not None:
            d["criteria"] = c
        cs.append(d)
    prob = make_problem(ps, cs, lambda ind: [0.0] * m)
    for r in case["inds"]:
        ind = Individual(list(r["v"]))
        ind.costs = list(r["c"])
        ind.population_id = r["t"]
        ind.features["front_number"] = r["front"]
        if case.get("signed"):
            ind.calc_signed_costs(prob.signs)
        prob.individuals.append(ind)
    return prob


def _ms(rows):
    return Counter(tuple(r) for r in rows)


def check_queries(case):
    from artap.results import Results
    prob = _build(case)
    try:
        return _check_queries(case, prob, Results(prob))
    finally:
        dispose(prob)


def _check_queries(case, prob, res):
    inds = prob.individuals
    q = case["q"]
    n, m = case["n"], case["m"]
    tags = [i.population_id for i in inds]
    last = max(tags) if tags else -1
    scope_tag = last if q["pop"] == -1 else q["pop"]
    scope = [i for i in inds if i.population_id == scope_tag]
    classes = []
    # population
    with guard("queries"):
        got = res.population(q["pop"]) if q["pop"] != -1 else res.population()
        got_last = prob.last_population()
        pops = prob.populations()
    if [id(x) for x in got] != [id(x) for x in scope]:
        raise Violation("queries", "population", "population(%r) over tags %r returned tags/ids %r" % (
            q["pop"], tags, [(x.population_id, x.id) for x in got]))
    if [id(x) for x in got_last] != [id(x) for x in inds if x.population_id == last]:
        raise Violation("queries", "last-population", "last_population over tags %r returned %r" % (
            tags, [x.population_id for x in got_last]))
    if sorted(pops.keys()) != sorted(set(tags)) or any(
            [id(x) for x in pops[t]] != [id(x) for x in inds if x.population_id == t] for t in pops):
        raise Violation("queries", "populations", "populations() keys %r for tags %r" % (list(pops.keys()), tags))
    # table / parameters
    with guard("queries"):
        tab = res.table(transpose=False)
        tabt = res.table()
        pars = res.parameters()
    rows = [list(i.vector) + list(i.costs) for i in inds]
    if _ms(tab) != _ms(rows):
        raise Violation("queries", "table", "table(transpose=False) = %r for records %r" % (tab, rows))
    back = [list(r) for r in zip(*tabt)] if tabt else []
    if _ms(back) != _ms(rows):
        raise Violation("queries", "table-transposed", "table() = %r for records %r" % (tabt, rows))
    if _ms(pars) != _ms([i.vector for i in inds]):
        raise Violation("queries", "parameters", "parameters() = %r" % (pars,))
    if inds:
        with guard("queries"):
            cs = res.costs()
        exp = [[i.costs[j] for i in inds] for j in range(m)]
        if [list(c) for c in cs] != exp:
            raise Violation("queries", "costs", "costs() = %r expected %r" % (cs, exp))
    # goal_on_parameter / parameter_on_goal / parameter_on_parameter
    pn, pn2, gn = "p%d" % q["pi"], "p%d" % q["pj"], "g%d" % q["gi"]
    srt = q["sorted"]
    # the last generation and unsorted output are the DEFAULTS of these queries: when the case asks for exactly that, the
    # arguments are left out, as a caller would
    kw = {} if q["pop"] == -1 else {"population_id": q["pop"]}
    kws = dict(kw) if not srt else dict(kw, sorted=True)
    with guard("queries"):
        gop = res.goal_on_parameter(pn, gn, **kws)
        pog = res.parameter_on_goal(gn, pn, **kws)
        pop_ = res.parameter_on_parameter(pn, pn2, **kws)
        goi = res.goal_on_index(gn, **kw)
        goi_all = res.goal_on_index(**kw)
        poi = res.parameter_on_index(pn, **kw)
        poi_all = res.parameter_on_index(**kw)
    pairs = [(i.vector[q["pi"]], i.costs[q["gi"]]) for i in scope]
    if len(gop) != 2 or _ms(zip(gop[0], gop[1])) != _ms(pairs):
        raise Violation("queries", "goal_on_parameter:pairing", "goal_on_parameter(sorted=%r) = %r, recorded pairs %r" % (
            srt, gop, pairs))
    if srt and any(a > b for a, b in zip(gop[0], gop[0][1:])):
        raise Violation("queries", "goal_on_parameter:order", "sorted output not non-decreasing: %r" % (gop[0],))
    if not srt and list(zip(gop[0], gop[1])) != pairs:
        raise Violation("queries", "goal_on_parameter:recording-order", "%r vs %r" % (gop, pairs))
    if len(pog) != 2 or _ms(zip(pog[1], pog[0])) != _ms(pairs):
        raise Violation("queries", "parameter_on_goal:pairing", "parameter_on_goal(sorted=%r) = %r, recorded pairs %r" % (
            srt, pog, pairs))
    if srt and any(a > b for a, b in zip(pog[0], pog[0][1:])):
        raise Violation("queries", "parameter_on_goal:order", "sorted output not non-decreasing: %r" % (pog[0],))
    if not srt and list(zip(pog[1], pog[0])) != pairs:
        raise Violation("queries", "parameter_on_goal:recording-order", "%r vs %r" % (pog, pairs))
    pp = [(i.vector[q["pi"]], i.vector[q["pj"]]) for i in scope]
    if len(pop_) != 2 or _ms(zip(pop_[0], pop_[1])) != _ms(pp):
        raise Violation("queries", "parameter_on_parameter:pairing", "%r vs recorded %r" % (pop_, pp))
    if srt and any(a > b for a, b in zip(pop_[0], pop_[0][1:])):
        raise Violation("queries", "parameter_on_parameter:order", "%r" % (pop_[0],))
    if not srt and list(zip(pop_[0], pop_[1])) != pp:
        raise Violation("queries", "parameter_on_parameter:recording-order", "%r vs %r" % (pop_, pp))
    if goi != [list(range(len(scope))), [i.costs[q["gi"]] for i in scope]]:
        raise Violation("queries", "goal_on_index", "%r" % (goi,))
    if goi_all != [list(range(len(scope)))] + [[i.costs[j] for i in scope] for j in range(m)]:
        raise Violation("queries", "goal_on_index-all", "%r" % (goi_all,))
    if poi != [list(range(len(scope))), [i.vector[q["pi"]] for i in scope]]:
        raise Violation("queries", "parameter_on_index", "%r" % (poi,))
    if poi_all != [list(range(len(scope)))] + [[i.vector[j] for i in scope] for j in range(n)]:
        raise Violation("queries", "parameter_on_index-all", "%r" % (poi_all,))
    # optimum
    if inds:
        with guard("queries"):
            opt = res.find_optimum(gn)
            opt0 = res.find_optimum()
        for o, gi in ((opt, q["gi"]), (opt0, 0)):
            if all(o is not i for i in inds):
                raise Violation("queries", "optimum-foreign", "find_optimum returned an object that was not recorded")
            col = [i.costs[gi] for i in inds]
            best = max(col) if case["crit"][gi] == "maximize" else min(col)
            if o.costs[gi] != best:
                raise Violation("queries", "optimum-wrong:%s" % case["crit"][gi],
                                "find_optimum(g%d, %s) returned cost %r, best recorded %r (all %r)" % (
                                    gi, case["crit"][gi], o.costs[gi], best, col))
        if case["crit"][q["gi"]] == "maximize":
            classes.append("maximised-goal")
        if case.get("signed"):
            classes.append("signed-costs")
        col = [i.costs[q["gi"]] for i in inds]
        if len(set(col)) > len(set(round(c, 7) for c in col)):
            classes.append("ties-in-7th-decimal")
    # pareto front
    with guard("queries"):
        pf = res.pareto_front(q["pop"] if q["pop"] != -1 else None)
        pi_ = res.pareto_individuals(q["pop"] if q["pop"] != -1 else None)
    f1 = [i for i in scope if i.features["front_number"] == 1]
    if [list(c) for c in pf] != [[i.costs[j] for i in f1] for j in range(m)]:
        raise Violation("queries", "pareto_front", "pareto_front = %r, front-1 members %r" % (pf, [i.costs for i in f1]))
    if [id(x) for x in pi_] != [id(x) for x in f1]:
        raise Violation("queries", "pareto_individuals", "wrong members")
    lastpop = [i for i in inds if i.population_id == last]
    if len(lastpop) > 1:
        with guard("queries"):
            pv = res.pareto_values()
        if [list(c) for c in pv] != [list(i.costs) for i in lastpop]:
            raise Violation("queries", "pareto_values", "pareto_values() = %r, costs of the last generation %r" % (
                pv, [i.costs for i in lastpop]))
        ref = [[float(c) + 0.5 for c in lastpop[0].costs], [float(c) - 1.0 for c in lastpop[-1].costs]]
        comp = [[float(c) for c in i.costs] for i in lastpop]
        with guard("queries"):
            pm_e = float(res.performance_measure([tuple(r) for r in ref]))
            pm_g = float(res.performance_measure([tuple(r) for r in ref], type="gd"))
        exp_e, exp_g = O.eps_add_reference(ref, comp), O.gd_reference(ref, comp)
        if abs(pm_e - exp_e) > 1e-9 * max(1.0, abs(exp_e)) or abs(pm_g - exp_g) > 1e-9 * max(1.0, abs(exp_g)):
            raise Violation("queries", "performance_measure", "performance_measure(%r) = %r (epsilon) / %r (gd) over the last "
                            "generation %r, indicators computed directly %r / %r" % (ref, pm_e, pm_g, comp, exp_e, exp_g))
        classes.append("performance-measure")
    unsorted_tags = len(set(tags)) >= 2 and tags != sorted(tags)
    dup_sorted = srt and len(set(p for p, _ in pairs)) < len(pairs)
    if unsorted_tags:
        classes.append("unsorted-tags")
    if dup_sorted:
        classes.append("dup-under-sort")
    classes.append("empty-scope" if not scope else "scope")
    return {"nt": bool(unsorted_tags or dup_sorted or "maximised-goal" in classes), "classes": classes}


# ---------------------------------------------------------------- indicators

dy = st.integers(-64, 64).map(lambda k: k / 8.0)
fl = st.floats(-1e3, 1e3, allow_nan=False).map(lambda x: round(x, 4))


@st.composite
def point_sets(draw):
    dim = draw(st.integers(1, 4))
    kind = draw(st.sampled_from(["dyadic", "dyadic", "float", "offset"]))
    if kind == "offset":
        # fronts far from the origin compared with the spacing of their points (all sums exact in doubles)
        off = draw(st.sampled_from([1e6, 1e9, -1e9, float(2 ** 40), 1e12]))
        c = st.integers(-64, 64).map(lambda k: off + k / 8.0)
    else:
        c = dy if kind == "dyadic" else fl
    ref = draw(st.lists(st.lists(c, min_size=dim, max_size=dim), min_size=1, max_size=8))
    mode = draw(st.sampled_from(["independent", "subset", "identical", "shifted"]))
    d = None
    if mode == "independent":
        comp = draw(st.lists(st.lists(c, min_size=dim, max_size=dim), min_size=1, max_size=8))
    elif mode == "subset":
        idx = draw(st.lists(st.integers(0, len(ref) - 1), min_size=1, max_size=8))
        comp = [list(ref[i]) for i in idx]
    elif mode == "identical":
        comp = [list(r) for r in ref]
    else:
        d = draw(st.integers(0, 80).map(lambda k: k / 8.0))
        comp = [[x + d for x in r] for r in ref]
    return {"ref": ref, "comp": comp, "mode": mode, "d": d, "kind": kind}


def check_gd(case):
    from artap.quality_indicator import gd
    ref, comp = case["ref"], case["comp"]
    with guard("gd"):
        g = float(gd([tuple(r) for r in ref], [tuple(c) for c in comp]))
    exp = O.gd_reference(ref, comp)
    if not (g >= 0.0) or abs(g - exp) > 1e-12 * max(1.0, abs(exp)):
        raise Violation("gd", "gd-value", "gd(%s, %s) = %r, mean nearest distance %r (%d reference points)" % (
            repr(ref)[:300], repr(comp)[:300], g, exp, len(ref)))
    subset = all(any(list(c) == list(r) for r in ref) for c in comp)
    if (g == 0.0) != subset:
        raise Violation("gd", "gd-zero-iff-subset", "gd=%r but computed subset of reference = %r (%s, %s)" % (
            g, subset, repr(ref)[:300], repr(comp)[:300]))
    return {"nt": len(ref) >= 2 and len(comp) >= 2 and len(ref[0]) >= 2, "classes": [case["mode"], case["kind"]]}


def check_eps(case):
    from artap.quality_indicator import epsilon_add
    ref, comp = case["ref"], case["comp"]
    with guard("epsilon_add"):
        e = float(epsilon_add([tuple(r) for r in ref], [tuple(c) for c in comp]))
    exp = O.eps_add_reference(ref, comp)
    tol = 0.0 if case["kind"] in ("dyadic", "offset") else 1e-9 * max(1.0, abs(exp))
    if not (e >= 0.0) or abs(e - exp) > tol:
        raise Violation("epsilon_add", "eps-value", "epsilon_add(%r, %r) = %r, max-min-max = %r" % (ref, comp, e, exp))
    if case["mode"] == "identical" and e != 0.0:
        raise Violation("epsilon_add", "eps-identical-nonzero", "identical sets give %r" % (e,))
    if case["mode"] == "shifted":
        d = case["d"]
        if abs(e - d) > (0.0 if case["kind"] in ("dyadic", "offset") else 1e-9 * max(1.0, d)):
            raise Violation("epsilon_add", "eps-shift", "reference %r shifted by %r gives %r" % (ref, d, e))
    dominated_ref = any(all(a < b for a, b in zip(r2, r1)) for r1 in ref for r2 in ref)
    cls = [case["mode"], case["kind"]]
    if dominated_ref:
        cls.append("reference-not-antichain")
    return {"nt": len(ref) >= 2 and len(comp) >= 2 and len(ref[0]) >= 2, "classes": cls}


def big_front_items(tier):
    """dense reference fronts (beyond 1024 points, sizes that are not powers of two or multiples of a block size)"""
    for n in ((1025, 1500, 2500) if tier == "quick" else (1025, 1500, 2047, 2500, 4097, 6000)):
        ref = [[i / 8.0, (n - i) / 8.0] for i in range(n)]
        for pick in ([n - 1, n - 2, n - 7], [0, n // 2, n - 1], [n - 1]):
            yield {"ref": ref, "comp": [list(ref[i]) for i in pick], "mode": "subset", "d": None, "kind": "dyadic"}
            # (a few shifted points, not the whole front shifted: no closed form for epsilon, the oracle decides)
            yield {"ref": ref, "comp": [[ref[i][0] + 0.25, ref[i][1] + 0.25] for i in pick], "mode": "independent",
                   "d": None, "kind": "dyadic"}


CLAUSES = [
    Clause("queries", record(), check_queries, quick=2000, thorough=12000, quick_shards=4),
    Clause("gd", point_sets(), check_gd, quick=2000, thorough=20000, quick_shards=2),
    Clause("epsilon_add", point_sets(), check_eps, quick=2000, thorough=20000, quick_shards=2),
]
ENUMS = [
    Enum("gd-dense-front", big_front_items, check_gd, tiers=("quick", "thorough"), chunk=3,
         exhaustive_note="reference fronts of 1025..2500 (thorough ..6000) points on a line, computed sets taken from the "
                         "head, middle and tail of the front and shifted copies"),
    Enum("eps-dense-front", big_front_items, check_eps, tiers=("thorough",), chunk=3,
         exhaustive_note="the same sets for the additive epsilon indicator"),
]
