"""C06 - transient evaluation failures are retried, logged and never recorded as results (fault sequences)."""
import os
import time
import json
import sqlite3
import itertools
import threading
from hypothesis import strategies as st

from ..core import Clause, Enum, Violation, guard, ulp, HarnessError
from ..harness import make_problem, dispose, seed_all

PROPERTY = "C06"
LEVEL = "fault_enumeration"
RULE = ("fault plans: batch of 1..5 designs, each with k in 0..6 leading failures and a per-failure exception type "
        "(TimeoutError / RuntimeError), the plan follows the design through re-sampling via a tag in `custom`; "
        "variants serial, 2-3 worker threads, with/without an SQLite store; separate plans with one non-transient "
        "exception (ValueError, KeyError, ZeroDivisionError, OSError, custom Exception) at a drawn call. Oracle per "
        "design: calls == min(k,5) + [k<5], failed list gained exactly the vectors of the failed calls (call order "
        "when serial), replacements inside the box, final costs == f(final vector), RuntimeError after 5 failures; "
        "the full product of plans (7 counts x 3 type patterns) for batches <= 3 is enumerated in the thorough tier "
        "(<= 2 in quick). Non-trivial = a design with k in {4,5}, or a batch mixing failing and clean designs")
ASSUMPTIONS = ["subclasses of RuntimeError/TimeoutError (user-defined ones, NotImplementedError) count as transient, like "
               "their base classes; they are never used as 'other' exceptions",
               "replacement designs are compared with the box using the C08 tolerance 1e-12 + 4 ulp",
               "in the parallel variant at most one design exhausts its five attempts; for the others only per-design "
               "consistency is asserted after the exception (joblib cannot cancel running threads)"]

class SolverDiverged(RuntimeError):
    """a user-defined RuntimeError: it *is* a RuntimeError, so it is transient like its base class"""


class LicenceTimeout(TimeoutError):
    pass


TYPES = {"T": TimeoutError, "R": RuntimeError, "S": SolverDiverged, "U": LicenceTimeout, "N": NotImplementedError}


class CustomError(Exception):
    pass


OTHER = {"ValueError": ValueError, "KeyError": KeyError, "ZeroDivisionError": ZeroDivisionError, "OSError": OSError,
         "CustomError": CustomError}


@st.composite
def plans(draw):
    n = draw(st.integers(1, 3))
    boxes = []
    for _ in range(n):
        # (some boxes do not sit on any coarse grid: a replacement rounded to somebody else's precision leaves them)
        lb = draw(st.sampled_from([0.0, -5.0, 1e3, -1e6, 2.5, 0.3, -0.77, 1.0 / 3.0]))
        boxes.append([lb, lb + draw(st.sampled_from([1.0, 10.0, 1e-3, 1e6, 0.2, 0.37]))])
    b = draw(st.integers(1, 5))
    designs = []
    for _ in range(b):
        k = draw(st.sampled_from([0, 0, 1, 2, 3, 4, 4, 5, 5, 6]))
        types = "".join(draw(st.sampled_from(["T", "R", "T", "R", "S", "U", "N"])) for _ in range(k))
        designs.append({"k": k, "types": types, "t": [draw(st.floats(0, 1)) for _ in range(n)]})
    mode = draw(st.sampled_from(["serial", "serial", "parallel"]))
    if mode == "parallel":
        seen5 = False
        for d in designs:
            if d["k"] >= 5:
                if seen5:
                    d["k"], d["types"] = 4, d["types"][:4]
                seen5 = True
    prec = [draw(st.sampled_from([None, None, 0.25, 0.1, 1e-3])) for _ in range(n)]
    # heterogeneous declarations: some parameters are integers (integer bounds), the others say nothing about a type
    ptype = []
    for j in range(n):
        if draw(st.integers(0, 3)) == 0:
            lo = draw(st.integers(-9, 9))
            boxes[j] = [float(lo), float(lo + draw(st.integers(1, 7)))]
            prec[j] = None
            ptype.append("integer")
        else:
            ptype.append(None)
    return {"boxes": boxes, "prec": prec, "ptype": ptype, "designs": designs, "mode": mode, "workers": draw(st.integers(2, 3)),
            "store": draw(st.booleans()), "seed": draw(st.integers(0, 2 ** 31))}


def _f(x):
    return [sum(float(v) for v in x), float(x[0]) * 2.0 - 1.0]


def run_plan(case, clause, other=None):
    """other = {"design": i, "after": j, "type": name}: design i raises a non-transient exception at its (j+1)-th call"""
    from artap.individual import Individual
    from artap.algorithm import DummyAlgorithm
    from artap.datastore import SqliteDataStore
    boxes, designs = case["boxes"], case["designs"]
    lock = threading.Lock()
    calls = {}          # tag -> list of (vector, outcome)
    order = []
    raised_obj = {}

    def ev(ind):
        tag = ind.custom["tag"]
        d = designs[tag]
        with lock:
            c = calls.setdefault(tag, [])
            idx = len(c)
            vec = [float(v) for v in ind.vector]
            if other is not None and other["design"] == tag and idx == other["after"]:
                c.append((vec, "other"))
                order.append((tag, vec, "other"))
                e = OTHER[other["type"]]("injected non-transient")
                raised_obj["e"] = e
                raise e
            if idx < d["k"]:
                c.append((vec, "fail"))
                order.append((tag, vec, "fail"))
                raise TYPES[d["types"][idx]]("injected transient failure %d" % idx)
            c.append((vec, "ok"))
            order.append((tag, vec, "ok"))
        return _f(ind.vector)

    ps = [{"name": "x%d" % i, "bounds": list(b)} for i, b in enumerate(boxes)]
    for p_, q_ in zip(ps, case.get("prec") or []):
        if q_:
            p_["precision"] = q_
    for p_, t_ in zip(ps, case.get("ptype") or []):
        if t_:
            p_["parameter_type"] = t_
    prob = make_problem(ps, [{"name": "f0", "criteria": "minimize"}, {"name": "f1", "criteria": "maximize"}], ev)
    db = None
    seed_all(case["seed"])
    try:
        with guard(clause):
            if case.get("store"):
                db = os.path.join(prob.working_dir, "store.sqlite")
                prob.data_store = SqliteDataStore(prob, database_name=db)
            alg = DummyAlgorithm(prob)
            if case["mode"] == "parallel":
                alg.options["max_processes"] = case["workers"]
        inds = []
        for tag, d in enumerate(designs):
            v = [b[0] + t * (b[1] - b[0]) for b, t in zip(boxes, d["t"])]
            v = [min(b[1], max(b[0], x)) for x, b in zip(v, boxes)]
            v = [float(round(x)) if t_ == "integer" else x for x, t_ in zip(v, case.get("ptype") or [None] * len(v))]
            ind = Individual(v)
            ind.custom["tag"] = tag
            inds.append(ind)
        start_vec = [list(i.vector) for i in inds]
        exc = None
        inflight, started, last_started = [0], [0], [-1]
        real_eval = alg.evaluator.job.evaluate

        def tracked(individual):
            with lock:
                inflight[0] += 1
                started[0] += 1
            try:
                return real_eval(individual)
            finally:
                with lock:
                    inflight[0] -= 1
        alg.evaluator.job.evaluate = tracked
        try:
            with guard(clause, allowed=(RuntimeError,) + tuple(OTHER.values())):
                alg.evaluate(inds)
        except (RuntimeError,) + tuple(OTHER.values()) as e:
            exc = e
        if case["mode"] == "parallel":
            # joblib cannot cancel running threads: wait until no Job.evaluate call is in flight and none starts
            quiet = 0
            for _ in range(1000):
                with lock:
                    busy = inflight[0]
                    cur = started[0]
                if busy == 0 and cur == last_started[0]:
                    quiet += 1
                    if quiet >= 3:
                        break
                else:
                    quiet = 0
                last_started[0] = cur
                time.sleep(0.005)
            else:
                raise HarnessError("worker threads did not finish within 5 s")
        rows = None
        if db:
            con = sqlite3.connect(db)
            rows = [json.loads(r[0]) for r in con.execute("SELECT individual FROM individuals")]
            con.close()
        failed = [(list(map(float, f.vector)), f.state, f) for f in prob.failed]
        return {"inds": inds, "calls": calls, "order": list(order), "exc": exc, "failed": failed, "rows": rows,
                "start": start_vec, "raised": raised_obj.get("e")}
    finally:
        dispose(prob)


def _in_box(v, boxes, prec=None, ptype=None):
    for j, (x, (lb, ub)) in enumerate(zip(v, boxes)):
        t = 1e-12 + 4 * ulp(max(abs(lb), abs(ub)))
        if ptype and ptype[j] == "integer" and x != int(x):
            return False
        if prec and prec[j]:
            t = prec[j] / 2 + 4 * ulp(max(abs(lb), abs(ub), prec[j]))
        if not (lb - t <= x <= ub + t):
            return False
    return True


def check_plan(case, clause="transient"):
    from artap.individual import Individual
    boxes, designs = case["boxes"], case["designs"]
    r = run_plan(case, clause)
    serial = case["mode"] == "serial"
    exhaust = [i for i, d in enumerate(designs) if d["k"] >= 5]
    stop_at = exhaust[0] if (exhaust and serial) else None
    # caller-visible exception
    if exhaust:
        if not isinstance(r["exc"], RuntimeError):
            raise Violation(clause, "no-runtimeerror-after-5", "plans %r (%s): caller saw %r" % (
                [d["k"] for d in designs], case["mode"], r["exc"]))
    elif r["exc"] is not None:
        raise Violation(clause, "unexpected-exception", "plans %r (%s): caller saw %r" % (
            [d["k"] for d in designs], case["mode"], r["exc"]))
    exp_failed = []
    for i, d in enumerate(designs):
        c = r["calls"].get(i, [])
        ind = r["inds"][i]
        if stop_at is not None and i > stop_at:
            if c:
                raise Violation(clause, "evaluated-after-abort", "design %d evaluated although design %d aborted the "
                                "serial batch" % (i, stop_at))
            continue
        if not serial and exhaust and i not in exhaust and not c:
            continue    # after the abort in another worker this task was never started
        exp_calls = min(d["k"], 5) + (1 if d["k"] < 5 else 0)
        if len(c) != exp_calls:
            raise Violation(clause, "attempt-count:k%d" % min(d["k"], 6), "design with %d leading failures: %d objective "
                            "calls, expected %d (%s)" % (d["k"], len(c), exp_calls, case["mode"]))
        if c and c[0][0] != [float(x) for x in r["start"][i]]:
            raise Violation(clause, "first-attempt-vector", "first call used %r, design was %r" % (c[0][0], r["start"][i]))
        for (vec, out) in c:
            if not _in_box(vec, boxes, case.get("prec"), case.get("ptype")):
                raise Violation(clause, "replacement-out-of-box", "attempt vector %r outside %r" % (vec, boxes))
        for a, b_ in zip(c, c[1:]):
            # (with a declared coarse precision or an integer parameter a fresh sample may legitimately coincide with the
            #  failed one)
            if a[0] == b_[0] and not any(case.get("prec") or []) and not any(case.get("ptype") or []):
                raise Violation(clause, "not-resampled", "the retry used the same vector %r again" % (a[0],))
        exp_failed.extend(vec for vec, out in c if out == "fail")
        if d["k"] < 5:
            if ind.state != Individual.State.EVALUATED:
                raise Violation(clause, "not-evaluated:k%d" % d["k"], "design with %d failures ended in state %r" % (
                    d["k"], ind.state))
            final = c[-1][0]
            if [float(x) for x in ind.vector] != final:
                raise Violation(clause, "final-vector", "stored vector %r, successful call used %r" % (ind.vector, final))
            if list(ind.costs) != _f(final):
                raise Violation(clause, "costs-not-of-final-vector", "stored costs %r, f(final vector %r) = %r" % (
                    ind.costs, final, _f(final)))
        else:
            if ind.state == Individual.State.EVALUATED:
                raise Violation(clause, "evaluated-after-5-failures", "design that failed 5 times is marked evaluated")
    got_failed = [v for v, s, o in r["failed"]]
    if serial:
        exp_order = [vec for tag, vec, out in r["order"] if out == "fail"]
        if got_failed != exp_order:
            raise Violation(clause, "failed-list", "failed list %r, failed calls in order %r" % (got_failed, exp_order))
    if sorted(got_failed) != sorted(vec for tag, vec, out in r["order"] if out == "fail"):
        raise Violation(clause, "failed-list-multiset", "failed list %r vs failed calls %r" % (
            got_failed, [vec for tag, vec, out in r["order"] if out == "fail"]))
    for v, s, o in r["failed"]:
        if s != Individual.State.FAILED:
            raise Violation(clause, "failed-state", "failed entry in state %r" % (s,))
        if any(o is i for i in r["inds"]):
            raise Violation(clause, "failed-entry-is-live-design", "the failed list holds the live design object")
    if r["rows"] is not None:
        ok_vecs = sorted(vec for tag, vec, out in r["order"] if out == "ok")
        row_vecs = sorted([float(x) for x in row["vector"]] for row in r["rows"])
        if row_vecs != ok_vecs:
            raise Violation(clause, "store-rows", "store rows %r, successful evaluations %r" % (row_vecs, ok_vecs))
        if any(row["state"] != "evaluated" for row in r["rows"]):
            raise Violation(clause, "store-state", "a stored row is not in state evaluated")
    ks = [d["k"] for d in designs]
    nt = any(k in (4, 5) for k in ks) or (any(k > 0 for k in ks) and any(k == 0 for k in ks))
    return {"nt": nt, "classes": [case["mode"], "store" if case.get("store") else "nostore",
                                  "exhausts" if exhaust else "recovers" if any(ks) else "clean"]}


# ---------------------------------------------------------------- non-transient exceptions

@st.composite
def other_plans(draw):
    c = draw(plans())
    c["mode"] = draw(st.sampled_from(["serial", "serial", "parallel"]))
    i = draw(st.integers(0, len(c["designs"]) - 1))
    for j, d in enumerate(c["designs"]):
        if j != i or c["mode"] == "parallel":
            d["k"] = min(d["k"], 4)
            d["types"] = d["types"][:d["k"]]
    after = draw(st.integers(0, min(4, c["designs"][i]["k"])))
    c["designs"][i]["k"] = max(c["designs"][i]["k"], after)
    c["designs"][i]["types"] = (c["designs"][i]["types"] + "TTTTTT")[:c["designs"][i]["k"]]
    c["other"] = {"design": i, "after": after, "type": draw(st.sampled_from(sorted(OTHER)))}
    return c


def check_other(case):
    from artap.individual import Individual
    r = run_plan(case, "non-transient", other=case["other"])
    o = case["other"]
    i = o["design"]
    if r["exc"] is None or r["exc"] is not r["raised"]:
        raise Violation("non-transient", "not-propagated:%s" % o["type"], "objective raised %r, caller saw %r" % (
            r["raised"], r["exc"]))
    c = r["calls"].get(i, [])
    if len(c) != o["after"] + 1 or c[-1][1] != "other":
        raise Violation("non-transient", "calls-after-exception", "design called %d times, expected %d" % (
            len(c), o["after"] + 1))
    if r["inds"][i].state == Individual.State.EVALUATED:
        raise Violation("non-transient", "marked-evaluated", "design is marked evaluated after %s" % o["type"])
    bad_vec = c[-1][0]
    exp = sorted(vec for tag, vec, out in r["order"] if out == "fail")
    got = sorted(v for v, s, ob in r["failed"])
    if got != exp:
        raise Violation("non-transient", "failed-list", "failed list %r, transient failures %r (the %s call used %r)" % (
            got, exp, o["type"], bad_vec))
    return {"nt": True, "classes": [o["type"], case["mode"], "after%d" % o["after"]]}


# ---------------------------------------------------------------- exhaustive product of plans

PATTERNS = ["T", "R", "TS"]


def plan_items(tier):
    per = []
    for k in range(7):
        pats = PATTERNS if k else ["T"]
        for p in pats:
            per.append({"k": k, "types": (p * 7)[:k]})
    maxb = 2 if tier == "quick" else 3
    for b in range(1, maxb + 1):
        for combo in itertools.product(per, repeat=b):
            yield {"boxes": [[0.0, 1.0], [-5.0, 5.0]], "mode": "serial", "workers": 2, "store": False, "seed": 7,
                   "designs": [dict(d, t=[0.25 * (i + 1), 0.5]) for i, d in enumerate(combo)]}


def check_enum(case):
    return check_plan(case, "transient")


CLAUSES = [
    Clause("transient", plans(), check_plan, quick=1000, thorough=5000, quick_shards=4),
    Clause("non-transient", other_plans(), check_other, quick=400, thorough=2500, quick_shards=2),
]
ENUMS = [
    Enum("plan-product", plan_items, check_enum, tiers=("quick", "thorough"), chunk=400,
         exhaustive_note="full product of (failure count 0..6) x (type pattern T/R/alternating) per design for serial "
                         "batches of <= 2 (quick) / <= 3 (thorough) designs"),
]
