"""Harness-owned thread scheduler for C07.

Worker threads are ordinary joblib threads; they block at *gates* placed in harness code they must pass through
(objective entry/exit, constraint call, store-sync entry/exit).  A controller waits for quiescence - no task running and
#blocked == min(workers, tasks not finished), a condition that needs no timing - then releases the blocked task chosen by
the next token of the schedule ('B' releases all blocked tasks at once: real overlap inside sqlite)."""
import threading

from .core import HarnessError


class Scheduler:
    def __init__(self, total, workers, tokens, default=0, timeout=30.0, cycle=False):
        self.cv = threading.Condition()
        self.total = total
        self.workers = workers
        self.tokens = list(tokens)
        self.default = default
        self.cycle = cycle
        self.timeout = timeout
        self.batch_total = total     # tasks of the batch being evaluated (begin_batch() for multi-batch runs)
        self.batch_done = 0
        self.blocked = {}      # task tag -> gate name
        self.released = set()
        self.running = 0
        self.done = 0
        self.trace = []        # (released tag, gate name)
        self.branching = []    # number of choices at each decision
        self.error = None
        self.local = threading.local()
        self.stop = False
        self.inflight = set()  # tasks between objective entry and finish
        self.max_inflight = 0
        self.grace = 0.3
        self.moves = 0
        self.last_moves = -1
        self.fallbacks = 0
        self.body_done = False

    # ---- called from the thread that starts a parallel evaluation
    def begin_batch(self, n):
        with self.cv:
            self.batch_total = n
            self.batch_done = 0
            self.cv.notify_all()

    # ---- called from worker threads
    def task_start(self, tag):
        self.local.tag = tag
        with self.cv:
            self.running += 1
            self.moves += 1
            self.cv.notify_all()

    def task_end(self, tag):
        with self.cv:
            self.running -= 1
            self.done += 1
            self.batch_done += 1
            self.moves += 1
            self.inflight.discard(tag)
            self.cv.notify_all()
        self.local.tag = None

    def gate(self, name):
        tag = getattr(self.local, "tag", None)
        if tag is None or self.stop:
            return
        with self.cv:
            self.running -= 1
            self.moves += 1
            self.blocked[tag] = name
            self.cv.notify_all()
            ok = self.cv.wait_for(lambda: tag in self.released or self.stop, timeout=self.timeout)
            self.released.discard(tag)
            self.blocked.pop(tag, None)
            self.running += 1
            if name == "objective-entry":
                self.inflight.add(tag)
                self.max_inflight = max(self.max_inflight, len(self.inflight))
            if not ok:
                self.error = "gate %s of task %r timed out" % (name, tag)

    # ---- controller thread
    def control(self):
        pos = 0
        with self.cv:
            while True:
                def ready():
                    if self.done >= self.total:
                        return True
                    waiting = len(self.blocked) - len(self.released & set(self.blocked))
                    left = self.batch_total - self.batch_done
                    return self.running == 0 and not self.released and left > 0 and waiting == min(self.workers, left)
                # fast path: the exact, timing-free condition.  Fallback (only reached when the code under test does
                # not run one task per design on `workers` threads, e.g. a dropped or duplicated task): proceed with
                # whatever is blocked once nothing has moved for a while; the oracle then judges the outcome.
                waited = 0.0
                ok = False
                while waited < self.timeout:
                    if self.cv.wait_for(ready, timeout=self.grace):
                        ok = True
                        break
                    waited += self.grace
                    if self.body_done:
                        break
                    # (running > 0 is possible here when a worker sits inside sqlite's busy handler waiting for a lock
                    #  that a *gated* worker holds: releasing a gated worker is the only way forward)
                    if not self.released and self.blocked and self.moves == self.last_moves:
                        self.fallbacks += 1
                        ok = True
                        break
                    self.last_moves = self.moves
                if not ok:
                    if not self.body_done:
                        self.error = "controller timed out: running=%d blocked=%r done=%d/%d" % (
                            self.running, dict(self.blocked), self.done, self.total)
                    self.stop = True
                    self.cv.notify_all()
                    return
                if self.done >= self.total:
                    return
                cands = sorted(self.blocked)
                if self.cycle and self.tokens:
                    tok = self.tokens[pos % len(self.tokens)]
                else:
                    tok = self.tokens[pos] if pos < len(self.tokens) else self.default
                pos += 1
                if tok == "B":
                    self.branching.append(len(cands))
                    for t in cands:
                        self.trace.append((t, self.blocked[t], "burst"))
                        self.released.add(t)
                else:
                    self.branching.append(len(cands))
                    t = cands[int(tok) % len(cands)]
                    self.trace.append((t, self.blocked[t], "one"))
                    self.released.add(t)
                self.cv.notify_all()

    def abort(self):
        with self.cv:
            self.stop = True
            self.cv.notify_all()


def run_scheduled(sched, body):
    """run `body()` (which starts the worker threads and joins them) under the controller"""
    ctl = threading.Thread(target=sched.control, daemon=True)
    ctl.start()
    try:
        body()
    finally:
        with sched.cv:
            sched.body_done = True
            if sched.done < sched.total:
                sched.stop = True
            sched.cv.notify_all()
        ctl.join(timeout=sched.timeout)
        if ctl.is_alive():
            sched.abort()
            ctl.join(timeout=5)
    if sched.error:
        raise HarnessError("scheduler: %s" % sched.error)
