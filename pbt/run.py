#!/venv/bin/python
"""Entry point:  run.py <Cxx> --tier quick|thorough [--replay FILE] [--procs N]

Prints `VIOLATION property=<id> replay=<path>` and exits 1 when the property fails on a generated case that is not a
listed known finding; prints `KNOWN-FINDING: property=<id> ...` for listed ones; exits 2 on harness errors.
"""
import os
import sys

if os.environ.get("PYTHONHASHSEED") != "0":
    os.environ["PYTHONHASHSEED"] = "0"
    os.execv(sys.executable, [sys.executable] + sys.argv)

import argparse
import glob
import json
import time
import shutil
import importlib
import multiprocessing as mp
import multiprocessing.pool

HERE = os.path.dirname(os.path.abspath(__file__))
VERIF = os.path.dirname(HERE)
sys.path.insert(0, VERIF)

from pbt import core  # noqa: E402


def main():
    ap = argparse.ArgumentParser()
    ap.add_argument("prop")
    ap.add_argument("--tier", default=os.environ.get("VERIF_TIER", "quick"), choices=["quick", "thorough"])
    ap.add_argument("--replay")
    ap.add_argument("--procs", type=int, default=0)
    ap.add_argument("--clause", action="append", help="restrict to the named clause(s) (debugging)")
    ap.add_argument("--scale", type=float, default=1.0, help="multiply example counts (debugging)")
    args = ap.parse_args()
    prop = args.prop.upper()
    try:
        seed = int(os.environ.get("VERIF_SEED", "1"))
    except ValueError:
        seed = 1
    t0 = time.time()
    os.chdir(VERIF)
    work = os.path.join(VERIF, ".work", "r%d" % os.getpid())
    os.environ["PBT_WORK"] = work
    core.private_tmpdir()
    core.silence_fds()
    try:
        core.setup_artap_path()
        mod = importlib.import_module("pbt.props.%s" % prop.lower())
    except Exception as e:  # noqa
        import traceback
        core.real_print("HARNESS-ERROR property=%s cannot import check: %s" % (prop, e))
        core.real_print(traceback.format_exc())
        return 2

    if args.replay:
        tmp = core.private_tmpdir()
        try:
            r = core.run_replay_file(prop, args.replay)
        except core.HarnessError as e:
            core.real_print("HARNESS-ERROR property=%s %s" % (prop, e))
            return 2
        finally:
            shutil.rmtree(tmp, ignore_errors=True)
        if r is None:
            core.real_print("replay %s: property %s holds on this case" % (args.replay, prop))
            return 0
        core.real_print("replay %s: %s [%s] %s" % (args.replay, r["clause"], r["bucket"], r["message"]))
        core.real_print("VIOLATION property=%s replay=%s" % (prop, args.replay))
        return 1

    tier = args.tier
    clauses = list(mod.CLAUSES)
    enums = list(getattr(mod, "ENUMS", []))
    tasks = []
    for ci, c in enumerate(clauses):
        if args.clause and c.name not in args.clause:
            continue
        if tier == "quick":
            shards = max(1, c.quick_shards)
            n = max(1, int(c.quick * args.scale / shards))
        else:
            shards = c.shards
            n = max(1, int(c.thorough * args.scale))
        for s in range(shards):
            # the quick tier shrinks too: the shrunk case is the replay file (Hypothesis caps shrinking at 5 min)
            tasks.append(("clause", ci, (prop, ci, n, seed * 100003 + ci * 1009 + s, True)))
    for ei, e in enumerate(enums):
        if args.clause and e.name not in args.clause:
            continue
        if tier not in e.tiers:
            continue
        total = sum(1 for _ in e.items(tier))
        lo = 0
        while lo < total:
            hi = min(total, lo + e.chunk)
            tasks.append(("enum", ei, (prop, ei, tier, lo, hi)))
            lo = hi
    replay_files = sorted(glob.glob(os.path.join(VERIF, "replays", prop, "*.json")))
    if replay_files:
        tasks.insert(0, ("replays", 0, (prop, replay_files)))

    procs = args.procs or (16 if tier == "thorough" else 8)
    procs = max(1, min(procs, len(tasks)))
    results = []
    with NonDaemonPool(procs, maxtasksperchild=1) as pool:
        handles = []
        for kind, idx, a in tasks:
            fn = {"clause": core.run_clause_shard, "enum": core.run_enum_chunk, "replays": core.run_replays_worker}[kind]
            handles.append((kind, idx, pool.apply_async(fn, a)))
        # a time budget for the whole check: a task that does not return (e.g. the code under test retries forever)
        # makes the run inconclusive (exit 2) instead of hanging; a budget hit is never reported as a violation
        import multiprocessing as _mp
        budget = float(os.environ.get("PBT_DEADLINE", "1500" if tier == "quick" else "21600"))
        t_end = time.time() + budget
        for kind, idx, h in handles:
            try:
                results.append((kind, idx, h.get(timeout=max(1.0, t_end - time.time()))))
            except _mp.TimeoutError:
                results.append((kind, idx, {"error": "HarnessError: %s task %d did not finish within the time budget of "
                                                     "%.0f s (inconclusive, not a violation)" % (kind, idx, budget)}))
        if time.time() >= t_end:
            _kill_descendants(os.getpid())

    # second engine (thorough tier): coverage-guided atheris campaigns on the clauses the module nominates
    fuzz_stats = []
    fuzz_failures = []
    fuzz_clauses = [c for c in getattr(mod, "FUZZ", []) if not args.clause or c in args.clause]
    if tier == "thorough" and fuzz_clauses and os.environ.get("PBT_FUZZ", "1") != "0":
        import subprocess
        runs = int(os.environ.get("PBT_FUZZ_RUNS", "60000"))
        max_time = int(os.environ.get("PBT_FUZZ_TIME", "240"))
        jobs = []
        for cname in fuzz_clauses:
            for k in range(4):
                outp = os.path.join(work, "fuzz-%s-%d.jsonl" % (cname, k))
                env = dict(os.environ, TMPDIR=os.path.join(work, "fz-%s-%d" % (cname, k)))
                os.makedirs(env["TMPDIR"], exist_ok=True)
                cmd = [sys.executable, os.path.join(HERE, "fuzz.py"), prop, cname, "--out", outp, "--runs", str(runs),
                       "--seed", str(seed * 7919 + k + 1), "--max-time", str(max_time),
                       "--corpus", os.path.join(env["TMPDIR"], "corpus")]
                jobs.append((cname, k, outp, subprocess.Popen(cmd, env=env, stdout=subprocess.DEVNULL,
                                                              stderr=subprocess.DEVNULL, cwd=VERIF)))
        for cname, k, outp, pr in jobs:
            try:
                pr.wait(timeout=max_time + 120)
            except subprocess.TimeoutExpired:
                pr.kill()
            final = None
            if os.path.exists(outp):
                for line in open(outp):
                    try:
                        rec = json.loads(line)
                    except ValueError:
                        continue
                    if rec.get("e") == "stat":
                        final = rec
                    elif rec.get("e") == "violation":
                        fuzz_failures.append(rec)
                    elif rec.get("e") == "unavailable":
                        final = {"unavailable": rec.get("why")}
                    elif rec.get("e") == "harness-error":
                        fuzz_failures.append({"harness": rec.get("msg")})
            fuzz_stats.append({"clause": cname, "campaign": k, "engine": "atheris/libFuzzer", "result": final})

    known = core.load_known()
    errors = []
    failures = []   # (clause, bucket, message, case, replay_path or None)
    per = {}
    known_seen = {}
    replayed = 0
    for kind, idx, r in results:
        if r.get("error"):
            errors.append(r["error"])
            continue
        if kind == "replays":
            replayed += r["n"]
            for f in r["failures"]:
                failures.append((f["clause"], f["vclause"], f["bucket"], f["message"], f["case"], f["replay"]))
            continue
        name = r["clause"]
        st = r["stats"]
        p = per.setdefault(name, {"kind": kind, "evaluations": 0, "nt": set(), "classes": {}, "samples": [],
                                  "excluded": 0, "wall_s": 0.0})
        p["evaluations"] += st["evaluations"]
        p["nt"].update(st["nt"])
        for k, v in st["classes"].items():
            p["classes"][k] = p["classes"].get(k, 0) + v
        if len(p["samples"]) < 3:
            p["samples"].extend(st["samples"][:3 - len(p["samples"])])
        p["excluded"] += st["excluded"]
        p["wall_s"] += r["wall_s"]
        for k, v in st["known_seen"].items():
            known_seen[k] = known_seen.get(k, 0) + v
        for f in r["failures"]:
            failures.append((f["clause"], f["vclause"], f["bucket"], f["message"], f["case"], None))

    for f in fuzz_failures:
        if "harness" in f:
            errors.append("fuzz: " + f["harness"])
        else:
            failures.append((f["clause"], f["vclause"], f["bucket"], f["message"], f["case"], None))

    # classify failures: known findings vs violations (one replay file per (clause, bucket))
    violations = {}
    for clause, vclause, bucket, message, case, rp in failures:
        v = core.Violation(vclause, bucket, message)
        k = core.known_match(known, prop, v)
        if k is not None:
            key = "%s|%s" % (vclause, bucket)
            known_seen[key] = known_seen.get(key, 0) + 1
            continue
        key = (clause, bucket)
        if key not in violations:
            violations[key] = (message, case, rp)

    out_lines = []
    for k in known:
        if k["property"] != prop or k.get("status") != "known":
            continue
        key = "%s|%s" % (k["clause"], k["bucket"])
        out_lines.append("KNOWN-FINDING: property=%s %s [%s/%s; reproduced %d times in this run]" % (
            prop, k["what"], k["clause"], k["bucket"], known_seen.get(key, 0)))

    found_dir = os.path.join(os.environ.get("PBT_FOUND") or os.path.join(VERIF, "found"), prop)
    vio_records = []
    for (clause, bucket), (message, case, rp) in sorted(violations.items()):
        if rp is None:
            os.makedirs(found_dir, exist_ok=True)
            h = core.case_hash({"c": clause, "b": bucket, "case": case})
            rp = os.path.join(found_dir, "%s-%016x.json" % (clause.replace("/", "_"), h))
            with open(rp, "w") as f:
                json.dump({"property": prop, "clause": clause, "bucket": bucket, "message": message, "case": case,
                           "seed": seed, "tier": tier}, f, indent=1, default=core._json_default)
        rel = os.path.relpath(rp, VERIF)
        out_lines.append("  %s [%s] %s" % (clause, bucket, message[:400]))
        out_lines.append("VIOLATION property=%s replay=%s" % (prop, rel))
        vio_records.append({"clause": clause, "bucket": bucket, "message": message[:1000], "replay": rel})

    # evidence
    total_eval = sum(p["evaluations"] for p in per.values()) + replayed
    all_nt = set()
    for name, p in per.items():
        all_nt.update((name, h) for h in p["nt"])
    samples = []
    for name, p in per.items():
        for s in p["samples"][:2]:
            samples.append({"clause": name, "case": s})
    vacuous = [name for name, p in per.items()
               if len(p["nt"]) < _min_nt(mod, name) and not any(v[0] == name for v in violations)]
    coverage = {
        "evaluations": total_eval,
        "distinct_nontrivial": len(all_nt),
        "rule": mod.RULE,
        "samples": samples[:12],
        "exhaustive": False,
        "exhaustive_subdomains": [{"name": e.name, "note": e.exhaustive_note,
                                   "cases": per.get(e.name, {}).get("evaluations", 0)}
                                  for e in enums if tier in e.tiers and e.name in per],
        "replayed_corpus_cases": replayed,
        "per_clause": {name: {"kind": p["kind"], "evaluations": p["evaluations"], "distinct_nontrivial": len(p["nt"]),
                              "classes": dict(sorted(p["classes"].items())), "excluded_by_bucket": p["excluded"],
                              "cpu_s": round(p["wall_s"], 2)} for name, p in per.items()},
        "fuzz_campaigns": fuzz_stats,
        "fuzz_executions": sum((f["result"] or {}).get("execs", 0) for f in fuzz_stats if f["result"]),
        "known_findings_seen": known_seen,
        "violations": vio_records,
        "harness_errors": [e[:2000] for e in errors],
    }
    ev = {"property_id": prop, "tier": tier, "seed": seed, "level": mod.LEVEL, "coverage": coverage,
          "assumptions": list(mod.ASSUMPTIONS), "wall_s": round(time.time() - t0, 2), "violations": len(vio_records)}
    os.makedirs(os.path.join(VERIF, "evidence"), exist_ok=True)
    if not args.clause and not os.environ.get("PBT_NO_EVIDENCE"):
        with open(os.path.join(VERIF, "evidence", "%s.json" % prop), "w") as f:
            json.dump(ev, f, indent=1, default=core._json_default)

    for line in out_lines:
        core.real_print(line)
    core.real_print("%s tier=%s seed=%d cases=%d distinct_nontrivial=%d clauses=%d wall=%.1fs" % (
        prop, tier, seed, total_eval, len(all_nt), len(per), time.time() - t0))
    if fuzz_stats:
        core.real_print("   atheris campaigns: %d, executions %d, violations %d" % (
            len(fuzz_stats), coverage["fuzz_executions"], sum(1 for f in fuzz_failures if "harness" not in f)))
    for name, p in per.items():
        core.real_print("   %-28s n=%-7d nt=%-7d %s" % (name, p["evaluations"], len(p["nt"]),
                                                     json.dumps(dict(sorted(p["classes"].items())))[:300]))
    shutil.rmtree(work, ignore_errors=True)
    if vio_records:
        return 1
    if errors:
        for e in errors:
            core.real_print("HARNESS-ERROR property=%s %s" % (prop, e[:3000]))
        return 2
    if vacuous:
        core.real_print("HARNESS-ERROR property=%s vacuous clauses (too few non-trivial cases): %s" % (prop, vacuous))
        return 2
    return 0


class _NonDaemonProcess(mp.get_context("fork").Process):
    # joblib refuses to start worker processes from daemonic children (and silently runs sequentially); the code under
    # test must see an ordinary process
    @property
    def daemon(self):
        return False

    @daemon.setter
    def daemon(self, value):
        pass


class _NonDaemonContext(type(mp.get_context("fork"))):
    Process = _NonDaemonProcess


def _kill_descendants(root):
    """SIGKILL every process below `root` (workers that never returned, their threads' subprocesses)"""
    import signal
    kids = {}
    for d in os.listdir("/proc"):
        if d.isdigit():
            try:
                with open("/proc/%s/stat" % d) as fh:
                    st = fh.read()
                ppid = int(st[st.rindex(")") + 2:].split()[1])
                kids.setdefault(ppid, []).append(int(d))
            except (OSError, ValueError, IndexError):
                pass
    todo, seen = [root], []
    while todo:
        for c in kids.get(todo.pop(), []):
            seen.append(c)
            todo.append(c)
    for pid in reversed(seen):
        try:
            os.kill(pid, signal.SIGKILL)
        except OSError:
            pass


class NonDaemonPool(mp.pool.Pool):
    def __init__(self, *a, **kw):
        kw["context"] = _NonDaemonContext()
        super().__init__(*a, **kw)


def _min_nt(mod, name):
    for c in list(mod.CLAUSES):
        if c.name == name:
            return c.min_nontrivial
    return 1


if __name__ == "__main__":
    sys.exit(main())
