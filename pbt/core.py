"""Runner shared by all property checks.

A property module (pbt/props/cXX.py) exposes

    PROPERTY   = "C20"
    LEVEL      = "exploration" | "fault_enumeration"
    RULE       = text: how cases are generated and what makes one non-trivial
    ASSUMPTIONS= [text, ...]
    CLAUSES    = [Clause(...), ...]          generated search (Hypothesis)
    ENUMS      = [Enum(...), ...]            optional bounded-exhaustive enumerations

Every case is JSON-serialisable data and every check is a plain function ``check(case) -> info`` raising
``Violation``; Hypothesis only searches and shrinks.  Exit codes: 0 held, 1 violation, 2 harness error/inconclusive.
"""
import os
import sys
import json
import time
import math
import hashlib
import shutil
import tempfile
import traceback
import contextlib
from dataclasses import dataclass, field
from typing import Callable, Any, Optional

VERIF = os.path.dirname(os.path.dirname(os.path.abspath(__file__)))
ARTAP_ROOT = os.environ.get("ARTAP_ROOT", "/repo")


class Violation(Exception):
    """The property does not hold on this case.  bucket identifies the root cause (clause-local)."""

    def __init__(self, clause, bucket, message):
        super().__init__("%s [%s] %s" % (clause, bucket, message))
        self.clause = clause
        self.bucket = bucket
        self.message = message


class HarnessError(Exception):
    """The check itself cannot run (entry point vanished, generator unhealthy, ...): exit 2, never a VIOLATION."""


@dataclass
class Clause:
    name: str
    strategy: Any                      # Hypothesis strategy -> JSON-able case
    check: Callable[[Any], Optional[dict]]   # returns {'nt': bool, 'classes': [str,...]} or None
    quick: int = 500                   # examples in the quick tier (total)
    thorough: int = 5000               # examples per shard in the thorough tier
    shards: int = 16                   # shards in the thorough tier
    quick_shards: int = 1
    min_nontrivial: int = 2            # fewer distinct non-trivial cases than this => exit 2 (vacuous run)
    stateful: bool = False
    simplify: Any = None               # optional: case -> iterable of structurally smaller candidate cases (ddmin pass
                                       # after Hypothesis' own shrinker, for shapes it shrinks badly: permutations,
                                       # back-references)


@dataclass
class Enum:
    """Bounded-exhaustive enumeration: ``items(tier)`` yields JSON-able cases, all of which are checked."""
    name: str
    items: Callable[[str], Any]
    check: Callable[[Any], Optional[dict]]
    tiers: tuple = ("thorough",)
    chunk: int = 2000                  # cases per pool task
    exhaustive_note: str = ""


# ----------------------------------------------------------------------------------------------------------------
# process hygiene

_REAL_STDOUT = None


def real_print(*a):
    global _REAL_STDOUT
    if _REAL_STDOUT is None:
        sys.__stdout__.write(" ".join(str(x) for x in a) + "\n")
        sys.__stdout__.flush()
    else:
        os.write(_REAL_STDOUT, (" ".join(str(x) for x in a) + "\n").encode())


def silence_fds():
    """artap/joblib print progress and 'Job: error' lines; send fd 1/2 of this process to /dev/null and keep a
    private copy of the real stdout for the result lines."""
    global _REAL_STDOUT
    if _REAL_STDOUT is not None:
        return
    sys.stdout.flush()
    sys.stderr.flush()
    _REAL_STDOUT = os.dup(1)
    if os.environ.get("PBT_DEBUG"):
        return
    dn = os.open(os.devnull, os.O_WRONLY)
    os.dup2(dn, 1)
    if not os.environ.get("PBT_STDERR"):
        os.dup2(dn, 2)
    os.close(dn)


def private_tmpdir():
    d = os.path.join(os.environ.get("PBT_WORK") or os.path.join(VERIF, ".work"), "p%d" % os.getpid())
    shutil.rmtree(d, ignore_errors=True)
    os.makedirs(d, exist_ok=True)
    os.environ["TMPDIR"] = d
    tempfile.tempdir = d
    return d


def setup_artap_path():
    root = os.environ.get("ARTAP_ROOT", ARTAP_ROOT)
    if sys.path[0] != root:
        sys.path.insert(0, root)
    import logging
    logging.disable(logging.CRITICAL)
    import artap
    got = os.path.dirname(os.path.dirname(os.path.abspath(artap.__file__)))
    if os.path.realpath(got) != os.path.realpath(root):
        raise HarnessError("artap imported from %s, expected %s" % (got, root))


# ----------------------------------------------------------------------------------------------------------------
# helpers for checks

def canon(case):
    return json.dumps(case, sort_keys=True, separators=(",", ":"), default=_json_default)


def _json_default(o):
    try:
        import numpy as np
        if isinstance(o, np.generic):
            return o.item()
        if isinstance(o, np.ndarray):
            return o.tolist()
    except Exception:
        pass
    if isinstance(o, (set, frozenset)):
        return sorted(o)
    return repr(o)


def case_hash(case):
    return int.from_bytes(hashlib.blake2b(canon(case).encode(), digest_size=8).digest(), "big")


def artap_frame(tb):
    """innermost frame inside the artap package -> 'file.py:function'"""
    root = os.path.realpath(os.environ.get("ARTAP_ROOT", ARTAP_ROOT))
    best = None
    for fs in traceback.extract_tb(tb):
        fn = os.path.realpath(fs.filename)
        if fn.startswith(os.path.join(root, "artap") + os.sep):
            best = "%s:%s" % (os.path.basename(fn), fs.name)
    return best


@contextlib.contextmanager
def guard(clause, allowed=()):
    """Calls into artap run inside this guard.  An exception that is not explicitly allowed and that passed through
    an artap frame is a violation of 'handled cleanly' (bucket = exception type + innermost artap frame); an exception
    that never touched artap is a harness error."""
    try:
        yield
    except Violation:
        raise
    except HarnessError:
        raise
    except allowed:
        raise
    except (KeyboardInterrupt, SystemExit, MemoryError):
        raise
    except BaseException as e:  # noqa
        fr = artap_frame(e.__traceback__)
        if fr is None:
            raise HarnessError("exception outside artap: %r\n%s" % (e, traceback.format_exc()))
        raise Violation(clause, "raises:%s@%s" % (type(e).__name__, fr), "unexpected %s: %s" % (type(e).__name__, e))


def ulp(x):
    x = abs(float(x))
    if x == 0.0 or math.isinf(x) or math.isnan(x):
        return 5e-324
    return math.ulp(x)


# ----------------------------------------------------------------------------------------------------------------
# known findings

def load_known():
    p = os.path.join(VERIF, "known_findings.json")
    if not os.path.exists(p):
        return []
    with open(p) as f:
        return json.load(f)["findings"]


def known_match(known, prop, v):
    for k in known:
        if k.get("status") != "known" or k["property"] != prop:
            continue
        if k["clause"] == v.clause and k["bucket"] == v.bucket:
            return k
    return None


# ----------------------------------------------------------------------------------------------------------------
# one shard of one clause

class Stats:
    def __init__(self):
        self.evaluations = 0
        self.nt = set()
        self.classes = {}
        self.samples = []
        self.excluded = 0
        self.known_seen = {}

    def record(self, case, info):
        self.evaluations += (info or {}).get("n", 1)      # a check may explore a whole sub-tree of cases
        if info:
            for key in info.get("nt_keys", ()):            # ... and report its own distinct non-trivial cases
                h = case_hash(key)
                if h not in self.nt:
                    self.nt.add(h)
                    if len(self.samples) < 3:
                        self.samples.append(key)
            for c in info.get("classes", ()):
                self.classes[c] = self.classes.get(c, 0) + 1
            if info.get("nt"):
                h = case_hash(case)
                if h not in self.nt:
                    self.nt.add(h)
                    if len(self.samples) < 3:
                        self.samples.append(case)
        if not self.samples and self.evaluations > 20:
            pass

    def to_dict(self):
        return {"evaluations": self.evaluations, "nt": list(self.nt), "classes": self.classes,
                "samples": self.samples, "excluded": self.excluded, "known_seen": self.known_seen}


def _mk_settings(n, shrink):
    from hypothesis import settings, Phase, HealthCheck
    phases = [Phase.generate, Phase.shrink] if shrink else [Phase.generate]
    return settings(max_examples=n, database=None, deadline=None, derandomize=False, report_multiple_bugs=False,
                    phases=phases, print_blob=False,
                    suppress_health_check=[HealthCheck.too_slow, HealthCheck.data_too_large,
                                           HealthCheck.large_base_example])


def run_clause_shard(prop, clause_index, n, seed, shrink=True, max_buckets=4):
    """Runs in a worker process.  Returns a JSON-able dict."""
    import importlib
    silence_fds()
    tmp = private_tmpdir()
    t0 = time.time()
    out = {"clause": None, "failures": [], "error": None}
    try:
        setup_artap_path()
        mod = importlib.import_module("pbt.props.%s" % prop.lower())
        clause = mod.CLAUSES[clause_index]
        out["clause"] = clause.name
        import hypothesis
        from hypothesis import given
        known = load_known()
        stats = Stats()
        excluded = set()
        remaining = n
        attempt = 0
        while remaining > 0 and attempt <= max_buckets:
            attempt += 1
            last = {}
            before = stats.evaluations

            def body(case):
                try:
                    info = clause.check(case)
                except Violation as v:
                    if v.bucket in excluded:
                        stats.excluded += 1
                        return
                    k = known_match(known, prop, v)
                    if k is not None:
                        key = "%s|%s" % (v.clause, v.bucket)
                        stats.known_seen[key] = stats.known_seen.get(key, 0) + 1
                        return
                    last["case"] = case
                    last["v"] = v
                    raise
                stats.record(case, info)

            test = hypothesis.seed(seed + 7919 * attempt)(_mk_settings(remaining, shrink)(given(clause.strategy)(body)))
            try:
                test()
            except Violation as v:
                fc, fv = last.get("case"), v
                if clause.simplify is not None:
                    fc, fv = ddmin(clause, fc, fv)
                v = fv
                out["failures"].append({"clause": clause.name, "vclause": v.clause, "bucket": v.bucket,
                                        "message": v.message, "case": json.loads(canon(fc))})
                excluded.add(v.bucket)
                remaining -= max(1, stats.evaluations - before)
                continue
            except BaseException as e:  # noqa
                # Hypothesis reports "flaky" when a failing case passes on replay.  For checks whose cases include
                # OS-scheduled bursts or timing (C07, C11) the violation that WAS observed is still a violation of the
                # property on that execution; report it with the note that the schedule is not reproducible.
                if type(e).__name__ in ("FlakyFailure", "Flaky", "FlakyReplay") and last.get("v") is not None:
                    v = last["v"]
                    out["failures"].append({"clause": clause.name, "vclause": v.clause, "bucket": v.bucket,
                                            "message": "[observed once, not reproduced on replay] " + v.message,
                                            "case": json.loads(canon(last.get("case")))})
                    excluded.add(v.bucket)
                    remaining -= max(1, stats.evaluations - before)
                    continue
                raise
            break
        out["stats"] = stats.to_dict()
    except HarnessError as e:
        out["error"] = "HarnessError: %s" % e
    except BaseException as e:  # noqa
        out["error"] = "%s: %s\n%s" % (type(e).__name__, e, traceback.format_exc())
    finally:
        shutil.rmtree(tmp, ignore_errors=True)
    out["wall_s"] = time.time() - t0
    return out


def ddmin(clause, case, v, budget_s=30.0, max_calls=3000):
    """greedy structural minimisation: accept a candidate iff it still fails in the same bucket"""
    t0 = time.time()
    calls = 0
    improved = True
    while improved and time.time() - t0 < budget_s and calls < max_calls:
        improved = False
        for cand in clause.simplify(case):
            calls += 1
            if time.time() - t0 > budget_s or calls > max_calls:
                break
            try:
                clause.check(cand)
            except Violation as w:
                if w.bucket == v.bucket and w.clause == v.clause:
                    case, v = cand, w
                    improved = True
                    break
            except Exception:  # noqa
                continue
    return case, v


def run_enum_chunk(prop, enum_index, tier, lo, hi):
    import importlib
    import itertools
    silence_fds()
    tmp = private_tmpdir()
    out = {"clause": None, "failures": [], "error": None}
    t0 = time.time()
    try:
        setup_artap_path()
        mod = importlib.import_module("pbt.props.%s" % prop.lower())
        en = mod.ENUMS[enum_index]
        out["clause"] = en.name
        known = load_known()
        stats = Stats()
        seen_buckets = set()
        for case in itertools.islice(en.items(tier), lo, hi):
            try:
                info = en.check(case)
            except Violation as v:
                k = known_match(known, prop, v)
                if k is not None:
                    key = "%s|%s" % (v.clause, v.bucket)
                    stats.known_seen[key] = stats.known_seen.get(key, 0) + 1
                    continue
                if v.bucket not in seen_buckets:
                    seen_buckets.add(v.bucket)
                    out["failures"].append({"clause": en.name, "vclause": v.clause, "bucket": v.bucket,
                                            "message": v.message, "case": json.loads(canon(case))})
                else:
                    stats.excluded += 1
                continue
            stats.record(case, info)
        out["stats"] = stats.to_dict()
    except HarnessError as e:
        out["error"] = "HarnessError: %s" % e
    except BaseException as e:  # noqa
        out["error"] = "%s: %s\n%s" % (type(e).__name__, e, traceback.format_exc())
    finally:
        shutil.rmtree(tmp, ignore_errors=True)
    out["wall_s"] = time.time() - t0
    return out


def run_replay_file(prop, path):
    """check one stored case by calling the plain check function (no Hypothesis).  Returns failure dict or None."""
    import importlib
    setup_artap_path()
    mod = importlib.import_module("pbt.props.%s" % prop.lower())
    with open(path) as f:
        rec = json.load(f)
    name = rec["clause"]
    fn = None
    for c in list(mod.CLAUSES) + list(getattr(mod, "ENUMS", [])):
        if c.name == name:
            fn = c.check
    if fn is None:
        raise HarnessError("replay %s names unknown clause %s" % (path, name))
    try:
        fn(rec["case"])
    except Violation as v:
        return {"clause": name, "vclause": v.clause, "bucket": v.bucket, "message": v.message, "case": rec["case"]}
    return None


def run_replays_worker(prop, paths):
    silence_fds()
    tmp = private_tmpdir()
    res = {"failures": [], "error": None, "n": 0}
    try:
        for p in paths:
            r = run_replay_file(prop, p)
            res["n"] += 1
            if r is not None:
                r["replay"] = p
                res["failures"].append(r)
    except HarnessError as e:
        res["error"] = "HarnessError: %s" % e
    except BaseException as e:  # noqa
        res["error"] = "%s: %s\n%s" % (type(e).__name__, e, traceback.format_exc())
    finally:
        shutil.rmtree(tmp, ignore_errors=True)
    return res
