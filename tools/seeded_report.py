#!/venv/bin/python
"""Regenerates seeded/README.md and the table at the end of DESIGN.md section 9 from seeded/*/meta.json."""
import os, json, glob, re
VERIF = os.path.dirname(os.path.dirname(os.path.abspath(__file__)))
rows = []
for d in sorted(glob.glob(os.path.join(VERIF, "seeded", "*", ""))):
    sid = os.path.basename(d.rstrip("/"))
    m = json.load(open(os.path.join(d, "meta.json")))
    c = m["confirmation"]
    b = (c.get("check_violations") or [""])[0]
    bucket = b.split("]")[0].replace("[", "/ ").strip() if "]" in b else ""
    how = m.get("how_caught") or ("after strengthening" if "first_check_result" in m else "first version")
    rows.append((sid, str(m.get("title", "")).replace("|", "/"), str(m.get("needs_to_manifest", "")).replace("\n", " ").replace("|", "/"),
                 bucket, how, "caught" if c.get("caught") else "MISSED"))
n = len(rows)
first = sum(1 for r in rows if r[4] == "first version")
after = sum(1 for r in rows if r[4] == "after strengthening")
pre = sum(1 for r in rows if r[4].startswith("strengthened before"))
missed = sum(1 for r in rows if r[5] != "caught")
readme = """# Seeded breaking changes

Written by independent sub-agents that saw only the text of one property and a scratch worktree of the repository
(nothing from /verif); from the third wave on they were additionally told the titles of the changes already made for
their property and asked for something different (waves 3-5: harder to trigger; waves 6-7: ordinary refactorings and
small features gone slightly wrong). Each change was confirmed in a fresh scratch worktree
(`tools/seeded_check.py`): the demo exits 0 on the clean tree and 1 with the patch, the pinned suite keeps all 186
baseline-stable tests green with the patch, and then the property's quick check was run against the patched tree
(`ARTAP_ROOT=<scratch>`). Nothing here is ever applied to /repo permanently.

Not kept: four changes that make `test_surrogate_function` fail reproducibly and therefore do not pass the existing tests
(two that de-duplicate `nondominated_truncate` on the cost vector, one that memoises dominance verdicts by hash, one that
treats objective values within a relative 1e-12 as ties) - all four are caught by the checks. Where the full suite lost
only that unseeded, load-sensitive test, it was re-run alone with the patch (`suite_note` in the meta.json).

Totals: %d kept; %d caught by the version of the check that existed when the change arrived, %d caught only after the
check was strengthened in response to a miss (or to a harness error), %d where the check was strengthened after reading
the sub-agent's description but before the first run; %d missed by the committed checks.

| id | title | needs to manifest | caught as (clause / bucket) | by |
|----|-------|-------------------|------------------------------|----|
""" % (n, first, after, pre, missed)
readme += "\n".join("| %s | %s | %s | %s | %s |" % (r[0], r[1][:110], r[2][:170], r[3][:70], r[4]) for r in rows) + "\n\n`meta.json` of every strengthened entry says what was missing (`note`) and what the first run reported (`first_check_result`).\n"
open(os.path.join(VERIF, "seeded", "README.md"), "w").write(readme)
dp = os.path.join(VERIF, "DESIGN.md")
s = open(dp).read()
i = s.index("| id | change | caught as (clause / bucket) | by |")
table = "| id | change | caught as (clause / bucket) | by |\n|----|--------|------------------------------|----|\n" + \
    "\n".join("| %s | %s | %s | %s |" % (r[0], r[1][:95], r[3][:60], r[4]) for r in rows) + "\n"
s = s[:i] + table
s = re.sub(r"\*\*\d+ were caught by the first version of the checks, \d+ only after the check was\nstrengthened, none is missed by the committed checks\.\*\*",
           "**%d were caught by the version of the check that existed when they arrived, %d only after the check was\nstrengthened (%d more were strengthened after reading the description, before the first run), none is missed by the\ncommitted checks.**" % (first, after, pre), s)
s = re.sub(r"baseline-stable tests\), then the property's quick check was run against the patched tree\. \d+ changes were kept in",
           "baseline-stable tests), then the property's quick check was run against the patched tree. %d changes were kept in" % n, s)
open(dp, "w").write(s)
print(n, first, after, pre, missed)
