#!/venv/bin/python
"""Sensitivity proof: apply each deliberate break from mutants/<Cxx>.json to a scratch copy of /repo and run the
property's quick check against the copy (ARTAP_ROOT).  'red' mutants must give exit 1 + VIOLATION, 'green' ones
(equivalent changes) must stay quiet.  The scratch copy lives under /tmp and is removed after every mutant.

usage: mutation_check.py C01 [C02 ...] [--only name] [--tier quick] [--jobs 4]
"""
import os
import sys
import json
import shutil
import argparse
import tempfile
import subprocess
from concurrent.futures import ThreadPoolExecutor

VERIF = os.path.dirname(os.path.dirname(os.path.abspath(__file__)))
REPO = "/repo"


def run_mutant(prop, mut, tier, extra):
    d = tempfile.mkdtemp(prefix="artap-mut-", dir="/tmp")
    try:
        shutil.copytree(os.path.join(REPO, "artap"), os.path.join(d, "artap"),
                        ignore=shutil.ignore_patterns("__pycache__", "tests", "*.pyc"))
        for ed in mut["edits"]:
            path = os.path.join(d, ed["file"])
            s = open(path).read()
            cnt = s.count(ed["old"])
            want = ed.get("count", 1)
            if cnt < 1 or (want != "all" and cnt != want):
                return mut["name"], "BROKEN-MUTANT", "pattern occurs %d times in %s" % (cnt, ed["file"])
            s = s.replace(ed["old"], ed["new"])
            open(path, "w").write(s)
        env = dict(os.environ, ARTAP_ROOT=d, VERIF_SEED=os.environ.get("VERIF_SEED", "1"), PBT_NO_EVIDENCE="1")
        cmd = ["/venv/bin/python", os.path.join(VERIF, "pbt", "run.py"), prop, "--tier", tier] + extra
        for cl in mut.get("clauses", []):
            cmd += ["--clause", cl]
        p = subprocess.run(cmd, cwd=VERIF, env=env, capture_output=True, text=True, timeout=3600)
        vio = [l for l in p.stdout.splitlines() if l.startswith("VIOLATION")]
        detail = [l for l in p.stdout.splitlines() if l.startswith("  ")][:2]
        exp = mut.get("expect", "red")
        if exp == "red":
            ok = p.returncode == 1 and vio
        else:
            ok = p.returncode == 0 and not vio
        return mut["name"], ("ok-%s" % exp) if ok else ("MISSED" if exp == "red" else "FALSE-ALARM"), \
            "exit=%d %s" % (p.returncode, " | ".join(detail)[:300] if detail else p.stdout[-300:])
    finally:
        shutil.rmtree(d, ignore_errors=True)


def main():
    ap = argparse.ArgumentParser()
    ap.add_argument("props", nargs="+")
    ap.add_argument("--only")
    ap.add_argument("--tier", default="quick")
    ap.add_argument("--jobs", type=int, default=3)
    args, extra = ap.parse_known_args()
    bad = 0
    for prop in args.props:
        muts = json.load(open(os.path.join(VERIF, "mutants", "%s.json" % prop)))
        if args.only:
            muts = [m for m in muts if m["name"] == args.only]
        with ThreadPoolExecutor(args.jobs) as ex:
            for name, status, info in ex.map(lambda m: run_mutant(prop, m, args.tier, extra), muts):
                print("%s %-40s %-12s %s" % (prop, name, status, info), flush=True)
                if not status.startswith("ok"):
                    bad += 1
    return 1 if bad else 0


if __name__ == "__main__":
    sys.exit(main())
