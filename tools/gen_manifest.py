#!/venv/bin/python
"""Writes MANIFEST.json from the table below (one place to keep it valid).  Run after adding a property check."""
import json
import os
import sys

VERIF = os.path.dirname(os.path.dirname(os.path.abspath(__file__)))

# property -> (category, technique, level text, level note, design ref)
CHECKS = {
    "C20": ("exploration",
            "Hypothesis generated pairs/pools + scripted call-site histories against the coordinate-wise oracle",
            "Generated search over vector pairs (subset-of-coordinates perturbations on both sides of the 1e-10 "
            "threshold, hash-colliding values), containers (in / set / list.remove) and the four call sites "
            "(Archive.remove, pop_acceptance, nondominated_truncate, GeneticAlgorithm.generate with scripted "
            "children) compared with the textbook definition of equality; no exhaustiveness claimed.",
            "Trusts CPython list/set semantics and the harness oracle all(|a_i-b_i|<1e-10); differences within a "
            "factor 5 of the threshold are not generated.",
            "DESIGN.md section 5, C20"),
}

NOT_YET = "check not built yet in this revision of /verif (planned in DESIGN.md section 5); nothing is claimed"


def main():
    props = [json.loads(l)["id"] for l in open(os.path.join(VERIF, "properties.jsonl"))]
    checks = []
    for pid in props:
        if pid not in CHECKS:
            continue
        cat, tech, text, note, ref = CHECKS[pid]
        checks.append({
            "property_id": pid,
            "quick_cmd": "/venv/bin/python pbt/run.py %s --tier quick" % pid,
            "thorough_cmd": "/venv/bin/python pbt/run.py %s --tier thorough" % pid,
            "evidence_file": "evidence/%s.json" % pid,
            "replay_cmd_template": "/venv/bin/python pbt/run.py %s --replay {path}" % pid,
            "engine": "pbt",
            "level_claimed": {"category": cat, "text": text, "design_ref": ref},
            "level_note": note,
            "technique": tech,
        })
    man = {
        "version": 1,
        "setup_cmd": "bash setup.sh",
        "hooks": {
            "guard": "ARTAP_VERIF",
            "enable": "no hooks are compiled into /repo: every observation point is wrapped inside the harness "
                      "process (monkey-patching from pbt/, ARTAP_ROOT selects the tree, default /repo)",
            "baseline_off_cmd": "cd /repo && /venv/bin/python -m pytest -ra -q -p no:cacheprovider --timeout=900 "
                                "--continue-on-collection-errors",
            "source_commits": [],
            "add_only": True,
        },
        "engines": [
            {"name": "pbt", "path": "pbt/run.py", "serves_properties": [c["property_id"] for c in checks],
             "kind_free_text": "Hypothesis 6.168 generated-input search (strategies -> JSON cases -> plain check "
                               "functions with independent oracles), bounded-exhaustive enumeration of small finite "
                               "generator domains, harness-owned schedules and crash points; 16-process sharding"},
        ],
        "checks": checks,
        "not_applicable": [{"property_id": p, "reason": NOT_YET} for p in props if p not in CHECKS],
        "notes": "Deciding technique for every claimed property: property-based testing / fuzzing (see DESIGN.md). "
                 "Fixes of genuine defects are unguarded 'fix:' commits in /repo, listed in known_findings.json.",
    }
    with open(os.path.join(VERIF, "MANIFEST.json"), "w") as f:
        json.dump(man, f, indent=1)
    try:
        import jsonschema
        jsonschema.validate(man, json.load(open("/root/.vp/MANIFEST.schema.json")))
        print("MANIFEST.json valid, %d checks, %d not_applicable" % (len(checks), len(man["not_applicable"])))
    except ImportError:
        print("MANIFEST.json written (jsonschema not importable here)")


if __name__ == "__main__":
    sys.exit(main())
