#!/venv/bin/python
"""Writes MANIFEST.json from the table below (one place to keep it valid).  Run after adding a property check."""
import json
import os
import sys

VERIF = os.path.dirname(os.path.dirname(os.path.abspath(__file__)))

# property -> (category, technique, level text, level note, design ref)
CHECKS = {
    "C07": ("exploration",
            "harness-owned gate scheduler over joblib worker threads: Hypothesis generated release orders + bounded-exhaustive enumeration of all schedules for small configurations, differential against serial evaluation",
            "Worker threads block at gates in harness code (objective entry/exit, constraint call, store-sync "
            "entry/exit); a controller releases them in a generated order (integers and burst tokens) once a "
            "timing-free quiescence condition holds. Every schedule's result is compared with serial evaluation of an "
            "identical batch (costs, signed costs, states, objective calls per design, one SQLite row per design). "
            "All release orders are enumerated for (2 tasks, 2 workers), (3, 2) and, in the thorough tier, (3, 3). "
            "Further clauses: whole algorithm runs under generated release orders, a CPU-bound model under a declared "
            "time_out, and a batch containing a design that cannot be evaluated (the failure must reach the caller as "
            "in the serial run).",
            "Granularity = the gates the property names; finer interleavings only inside burst releases (OS-chosen, "
            "not reproducible); <= 2 transient failures per design.",
            "DESIGN.md section 5, C07"),
    "C10": ("exploration",
            "model-based store histories (sync / mutate / sync_all / reopen) vs normalised last-synced snapshot; every synchronising algorithm run with a store",
            "Generated histories over one database file with individuals carrying floats of all magnitudes, +-0.0, "
            "+-inf, numpy scalars, nested custom data, algorithm-style features (id lists given as objects, numpy "
            "gradients) and unicode metadata are compared, through a read-mode view and the raw table, with a model "
            "id -> last synchronised snapshot (bit-exact floats, one row per id); eleven algorithm/evaluator "
            "combinations are run with a store and every recorded individual must have a row with its final data. "
            "Histories also contain in-place changes, write-mode reopen, rewrite mode, a file locked for the first "
            "k write attempts, a pre-created empty file, designs in state IN_PROGRESS, another study's store opened "
            "in the same session (ids must never be reused).",
            "NaN, string and dict feature values are not generated; SELECT order is not asserted.",
            "DESIGN.md section 5, C10"),
    "C11": ("fault_enumeration",
            "crash-point injection in a writer subprocess (objective calls, every SQL statement/commit before+after, Python-level file operations, strace SIGKILL at every pwrite64, timed SIGKILL, a locked database; harness-owned clock, transient objective failures) + fresh reader process, TRY/ACK side-log oracle",
            "A writer subprocess running a serial batch, a 3-worker batch or an NSGA-II run on an SQLite store is "
            "killed without clean-up at enumerated crash points (A: each objective call, B: before/after each SQL "
            "statement and commit, C: each write syscall on the database/journal via strace fault injection, D: drawn "
            "delays, E: a synchronisation that finds the database locked once, F: before/after each Python-level "
            "remove/rename/replace/truncate of the database files of a 1 MB store; A/B also with a harness-owned clock on "
            "which a model evaluation takes 6 s or 700 s and with a transiently failing objective call); a fresh process reopens the file through the read-mode view and every row must equal a version "
            "the writer attempted, not older than the last acknowledged one, with every acknowledged id present and "
            "costs matching the vector. A-C are enumerated completely per scenario in the thorough tier.",
            "Process death only (synchronous=0, no power-loss claim); crash points start after the store constructor "
            "returned; injector C needs ptrace.",
            "DESIGN.md section 5, C11"),
    "C15": ("exploration",
            "Hypothesis generated box points (uniform, corners, lattices, optimum neighbourhoods, constraint surface) + SciPy local search through the same oracle + dense 1-D/2-D scans + enumerated documented optima",
            "Every benchmark class x accepted dimension is evaluated on generated points given as Python floats and "
            "numpy scalars or one float64 array (total, finite, one cost, the point unchanged by evaluate), at its documented optimum (value within 1e-3) and searched for a "
            "point better than the documented optimum in the declared direction by random points, local optimisers "
            "whose every visited point goes through the oracle, and dense scans of the 1-D and 2-D functions.",
            "Clause B is a global-optimisation claim: search can miss a narrow basin; tolerance 1e-3; dimensions <= 25 (the value at the documented optimum is enumerated up to d = 100).",
            "DESIGN.md section 5, C15"),
    "C03": ("exploration",
            "Hypothesis generated fronts / ranked populations / tournaments vs crowding reference and truncation predicates",
            "Crowding distance is compared with an independent reference on tie-free fronts and with the stated weak "
            "predicates on tied fronts; truncation of populations ranked by the real sorter (duplicated designs, "
            "hash-colliding coordinates) is checked for size, uniqueness of designs, rank order, non-dominated "
            "survivors and crowding order in the cut front; the tournament is observed through a recording "
            "pass-through of random.sample and must never return the worse-ranked or dominated candidate.",
            "With duplicates only designs are compared; crowding tolerance 1e-12 relative.",
            "DESIGN.md section 5, C03"),
    "C05": ("exploration",
            "model-based evaluate() histories with a call-logging table objective; sweep and scalar-bridge differentials (scripted optimiser, real SciPy/NLopt, max f == min -f)",
            "Generated histories of evaluate() calls (new, mixed, repeated batches) over table objectives with values "
            "on rounding boundaries and many magnitudes: objective calls per design == 1, costs == objective output, "
            "signed costs satisfy the rounding/sign relation, marker ranks feasible designs first; sweeps record the "
            "generator's designs in order; every point queried through evaluate_scalar / ScipyOpt / NLopt is recorded "
            "with its true cost while the optimiser sees the signed cost (metamorphic: maximise f == minimise -f).",
            "Objectives are pure tables; rounding accepted as a relation (half-even or decimal).",
            "DESIGN.md section 5, C05"),
    "C06": ("fault_enumeration",
            "fault plans per design (0..6 leading failures x exception types) generated by Hypothesis and enumerated as a full product for batches <= 3; serial and threaded; SQLite store",
            "Every pattern of failing/succeeding objective calls for batches of up to 3 designs (7 failure counts x 3 "
            "type patterns each) is enumerated in the thorough tier, larger batches, parallel workers, stores and "
            "non-transient exceptions are generated; per design the model predicts attempts, failed-list content, "
            "re-sampling inside the box, final costs, the RuntimeError after five failures and immediate propagation "
            "of other exceptions.",
            "The plan follows a design through re-sampling via a tag in `custom`; in the threaded variant at most "
            "one design exhausts its attempts.",
            "DESIGN.md section 5, C06"),
    "C08": ("exploration",
            "Hypothesis generated boxes/parents/probabilities for the four operators (exact in-box oracle), all generators, and five algorithms' runs with a vector-logging objective",
            "Operators are run on boxes with widths 1e-9..1e9 and bounds up to +-1e6 with parents on the bounds and "
            "(almost) coincident parents; children must be real, of the right length and inside the box exactly; "
            "generators within the declared precision; every vector evaluated by NSGAII/EpsMOEA/OMOPSO/SMPSO/PSOGA "
            "runs (with optional transient failures) must lie in the box.",
            "Tolerance 1e-12 + 4 ulp(max|bound|) for generators/runs; zero-width boxes excluded.",
            "DESIGN.md section 5, C08"),
    "C09": ("exploration",
            "generated run configurations with call-counting objective and injected transient failures; generated pop_acceptance cases in three categories",
            "Runs of NSGAII/EpsMOEA/OMOPSO/SMPSO over drawn (N, G, n, m, seed, failure plan): exact budget, generation "
            "keys and sizes, no repeated design in NSGA-II generations >= 2, generational elitism against the "
            "dominance oracle, monotone best cost for m=1, constant working-population size at every EpsMOEA "
            "acceptance step; pop_acceptance on drawn populations in its dominating / dominated / incomparable cases.",
            "Runs with colliding initial random designs are skipped and counted.",
            "DESIGN.md section 5, C09"),
    "C12": ("exploration",
            "Hypothesis generated boxes/sizes/seeds vs stratum, exact radical-inverse (Fractions) and grid-product oracles",
            "LHS columns are checked for exactly one sample per stratum, Halton points against radical inverses "
            "computed with exact fractions and an own prime sieve, the uniform generator against the full product of "
            "k equally spaced levels, the random generator for count and bounds.",
            "Seeds enter through a seeded RandomState subclass installed in the harness process; tolerance 1e-12*width "
            "+ 4 ulp.",
            "DESIGN.md section 5, C12"),
    "C13": ("exploration",
            "generated level lists/bounds + complete sweep of Plackett-Burman factor counts vs combinatorial oracles (multisets, balance, orthogonality, partition of the full factorial)",
            "Full-factorial designs are compared as multisets with itertools.product; every Plackett-Burman factor "
            "count 1..127 is enumerated (two-level, run count, balanced and pairwise orthogonal columns, unsupported "
            "sizes only rejected with AssertionError); Box-Behnken rows against the pairwise-corner construction; "
            "GSD designs must be duplicate-free subsets and the r complementary designs a partition of the full "
            "factorial.",
            "GSD domain k>=2 factors with level counts >= reduction >= 2.",
            "DESIGN.md section 5, C13"),
    "C18": ("exploration",
            "Hypothesis generated particles/velocities/positions on OMOPSO, SMPSO, PSOGA instances + runs whose objective inspects the leader archive at every call",
            "update_particle_best vs the dominance oracle, update_velocity/speed_constriction clamp with positions up "
            "to 1e6 box widths outside, update_position reset-to-bound and velocity reversal/damping per algorithm, "
            "and leader-archive size and mutual non-domination observed at every objective call of generated runs.",
            "Leader non-domination asserted for robust domination (> 1e-9 relative).",
            "DESIGN.md section 5, C18"),
    "C19": ("exploration",
            "model-based request histories (predict-hook decisions, trained flag, train_step) vs model counters; stub regressor",
            "Generated histories of evaluation requests (direct and through Job.evaluate) interleaved with hook "
            "decisions and trained-flag changes are replayed against model counters: predictions only when trained and "
            "the hook answers, otherwise exactly one objective call returned by identity, training data appended once "
            "in order, retraining exactly at every train_step-th true evaluation, counters adding up; pass-through "
            "surrogate separately.",
            "sklearn replaced by a stub regressor; the real SurrogateModelScikit.train decides `trained`.",
            "DESIGN.md section 5, C19"),
    "C01": ("exploration",
            "Hypothesis generated pairs/triples + exhaustive small grid against the textbook dominance relation",
            "Generated search over pairs and triples of signed-cost vectors (ties, mixed better/worse coordinates, "
            "magnitudes 1e-100..1e100, all marker combinations) compared with an independently written textbook "
            "relation: verdict, irreflexivity, antisymmetry, transitivity, epsilon-vs-Pareto agreement on separated "
            "pairs and a named loser for identical vectors; all pairs/triples over {0,1,2}^m x 3 markers (m<=3) are "
            "enumerated completely.",
            "Oracle = all/any formulation of constrained dominance; negative markers and near-equal floats under the "
            "epsilon comparator are outside the generated domain.",
            "DESIGN.md section 5, C01"),
    "C02": ("exploration",
            "Hypothesis generated populations (grids, chains, antichains, layers, duplicates) vs longest-dominator-chain rank oracle, in two input orders",
            "Every individual's front number is compared with the recursive definition of Pareto rank on generated "
            "populations of up to 60 members in two drawn input orders; consequences (front 1 = non-dominated set, "
            "nobody unranked, no domination inside a front) are named in the failure bucket.",
            "Trusts the harness dominance oracle (shared with C01, itself checked against ParetoDominance); the same "
            "object never appears twice in one list.",
            "DESIGN.md section 5, C02"),
    "C04": ("exploration",
            "model-based histories: Hypothesis generated add/re-offer sequences vs the set model, order permutation, truncate",
            "Generated add histories (up to 60 steps; repeats, chains, antichains with dominators, infeasible members; "
            "Pareto and epsilon comparators) are applied to the archive and to a set model; after every step the "
            "archive must equal the non-dominated subset of everything offered, add() must report membership, and the "
            "final content must be independent of a drawn permutation; truncate keeps the top feature values.",
            "Epsilon archives only see separated values; markers non-negative; truncate sizes >= 1.",
            "DESIGN.md section 5, C04"),
    "C14": ("exploration",
            "model-based histories of evaluated batches + NSGA-II/EpsMOEA runs with call-logging objective",
            "Generated histories of 1..4 batches through Algorithm.evaluate with the worst-case / gradient evaluator: "
            "after every batch all designs evaluated so far must keep m+1 costs, untouched children at x +/- tol e_i, "
            "sum|f(x)-f(child)| as extra objective, exact objective-call counts; gradient = forward difference with "
            "n extra calls; plus short NSGA-II / EpsMOEA runs with these evaluators.",
            "Polynomial objective family; for m>1 only the structure of the extra objective is asserted.",
            "DESIGN.md section 5, C14"),
    "C16": ("exploration",
            "Hypothesis generated box points vs the family identities with independently coded distance functions",
            "Generated points of the box (position variables not tied to 0.5, boundary values, the Pareto slice) for "
            "DTLZ1 (m 2..6, k 1..8), DTLZ2-4 (m 2..6, dimension m+9), ZDT1 and the bi-objective problem are checked "
            "against sum f=(1+g)/2, ||f||=1+g, f2=g(1-sqrt(f1/g)), f1 f2=1+x2 and non-negativity (rel. tol 1e-9).",
            "g functions re-implemented from the cited papers; tolerance 1e-9 relative.",
            "DESIGN.md section 5, C16"),
    "C17": ("exploration",
            "Hypothesis generated records and point sets vs direct recomputation (multiset pairing oracle, nested-loop indicators)",
            "Generated recorded-individual sets (unsorted / gapped tags, duplicates, min/max criteria) are queried "
            "through every Results method and compared with a direct computation over the recorded list (identity for "
            "population/optimum queries, multiset of (parameter, cost) pairs for listings, order for sorted output); "
            "gd and epsilon_add are compared with nested-loop references, including zero-iff-subset and shift-by-d "
            "(exact on dyadic inputs).",
            "Tags >= 0 (-1 means 'last'); costs()/find_optimum() only on non-empty records; finite values.",
            "DESIGN.md section 5, C17"),
    "C20": ("exploration",
            "Hypothesis generated pairs/pools + scripted call-site histories against the coordinate-wise oracle",
            "Generated search over vector pairs (subset-of-coordinates perturbations on both sides of the 1e-10 "
            "threshold, hash-colliding values), containers (in / set / list.remove) and the four call sites "
            "(Archive.remove, pop_acceptance, nondominated_truncate, GeneticAlgorithm.generate with scripted "
            "children) compared with the textbook definition of equality; no exhaustiveness claimed.",
            "Trusts CPython list/set semantics and the harness oracle all(|a_i-b_i|<1e-10); differences within a "
            "factor 5 of the threshold are not generated.",
            "DESIGN.md section 5, C20"),
}

NOT_YET = "check not built yet in this revision of /verif (planned in DESIGN.md section 5); nothing is claimed"


def main():
    props = [json.loads(l)["id"] for l in open(os.path.join(VERIF, "properties.jsonl"))]
    checks = []
    for pid in props:
        if pid not in CHECKS:
            continue
        cat, tech, text, note, ref = CHECKS[pid]
        checks.append({
            "property_id": pid,
            "quick_cmd": "/venv/bin/python pbt/run.py %s --tier quick" % pid,
            "thorough_cmd": "/venv/bin/python pbt/run.py %s --tier thorough" % pid,
            "evidence_file": "evidence/%s.json" % pid,
            "replay_cmd_template": "/venv/bin/python pbt/run.py %s --replay {path}" % pid,
            "engine": "pbt",
            "level_claimed": {"category": cat, "text": text, "design_ref": ref},
            "level_note": note,
            "technique": tech,
        })
    man = {
        "version": 1,
        "setup_cmd": "bash setup.sh",
        "hooks": {
            "guard": "ARTAP_VERIF",
            "enable": "no hooks are compiled into /repo: every observation point is wrapped inside the harness "
                      "process (monkey-patching from pbt/, ARTAP_ROOT selects the tree, default /repo)",
            "baseline_off_cmd": "cd /repo && /venv/bin/python -m pytest -ra -q -p no:cacheprovider --timeout=900 "
                                "--continue-on-collection-errors",
            "source_commits": [],
            "add_only": True,
        },
        "engines": [
            {"name": "pbt", "path": "pbt/run.py", "serves_properties": [c["property_id"] for c in checks],
             "kind_free_text": "Hypothesis 6.168 generated-input search (strategies -> JSON cases -> plain check "
                               "functions with independent oracles), bounded-exhaustive enumeration of small finite "
                               "generator domains, harness-owned schedules and crash points; 16-process sharding"},
        ],
        "checks": checks,
        "not_applicable": [{"property_id": p, "reason": NOT_YET} for p in props if p not in CHECKS],
        "notes": "Deciding technique for every claimed property: property-based testing / fuzzing (see DESIGN.md). "
                 "Fixes of genuine defects are unguarded 'fix:' commits in /repo, listed in known_findings.json.",
    }
    with open(os.path.join(VERIF, "MANIFEST.json"), "w") as f:
        json.dump(man, f, indent=1)
    try:
        import jsonschema
        jsonschema.validate(man, json.load(open("/root/.vp/MANIFEST.schema.json")))
        print("MANIFEST.json valid, %d checks, %d not_applicable" % (len(checks), len(man["not_applicable"])))
    except ImportError:
        print("MANIFEST.json written (jsonschema not importable here)")


if __name__ == "__main__":
    sys.exit(main())
