#!/venv/bin/python
"""Writes MANIFEST.json from the table below (one place to keep it valid).  Run after adding a property check."""
import json
import os
import sys

VERIF = os.path.dirname(os.path.dirname(os.path.abspath(__file__)))

# property -> (category, technique, level text, level note, design ref)
CHECKS = {
    "C01": ("exploration",
            "Hypothesis generated pairs/triples + exhaustive small grid against the textbook dominance relation",
            "Generated search over pairs and triples of signed-cost vectors (ties, mixed better/worse coordinates, "
            "magnitudes 1e-100..1e100, all marker combinations) compared with an independently written textbook "
            "relation: verdict, irreflexivity, antisymmetry, transitivity, epsilon-vs-Pareto agreement on separated "
            "pairs and a named loser for identical vectors; all pairs/triples over {0,1,2}^m x 3 markers (m<=3) are "
            "enumerated completely.",
            "Oracle = all/any formulation of constrained dominance; negative markers and near-equal floats under the "
            "epsilon comparator are outside the generated domain.",
            "DESIGN.md section 5, C01"),
    "C02": ("exploration",
            "Hypothesis generated populations (grids, chains, antichains, layers, duplicates) vs longest-dominator-chain rank oracle, in two input orders",
            "Every individual's front number is compared with the recursive definition of Pareto rank on generated "
            "populations of up to 60 members in two drawn input orders; consequences (front 1 = non-dominated set, "
            "nobody unranked, no domination inside a front) are named in the failure bucket.",
            "Trusts the harness dominance oracle (shared with C01, itself checked against ParetoDominance); the same "
            "object never appears twice in one list.",
            "DESIGN.md section 5, C02"),
    "C04": ("exploration",
            "model-based histories: Hypothesis generated add/re-offer sequences vs the set model, order permutation, truncate",
            "Generated add histories (up to 60 steps; repeats, chains, antichains with dominators, infeasible members; "
            "Pareto and epsilon comparators) are applied to the archive and to a set model; after every step the "
            "archive must equal the non-dominated subset of everything offered, add() must report membership, and the "
            "final content must be independent of a drawn permutation; truncate keeps the top feature values.",
            "Epsilon archives only see separated values; markers non-negative; truncate sizes >= 1.",
            "DESIGN.md section 5, C04"),
    "C14": ("exploration",
            "model-based histories of evaluated batches + NSGA-II/EpsMOEA runs with call-logging objective",
            "Generated histories of 1..4 batches through Algorithm.evaluate with the worst-case / gradient evaluator: "
            "after every batch all designs evaluated so far must keep m+1 costs, untouched children at x +/- tol e_i, "
            "sum|f(x)-f(child)| as extra objective, exact objective-call counts; gradient = forward difference with "
            "n extra calls; plus short NSGA-II / EpsMOEA runs with these evaluators.",
            "Polynomial objective family; for m>1 only the structure of the extra objective is asserted.",
            "DESIGN.md section 5, C14"),
    "C16": ("exploration",
            "Hypothesis generated box points vs the family identities with independently coded distance functions",
            "Generated points of the box (position variables not tied to 0.5, boundary values, the Pareto slice) for "
            "DTLZ1 (m 2..6, k 1..8), DTLZ2-4 (m 2..6, dimension m+9), ZDT1 and the bi-objective problem are checked "
            "against sum f=(1+g)/2, ||f||=1+g, f2=g(1-sqrt(f1/g)), f1 f2=1+x2 and non-negativity (rel. tol 1e-9).",
            "g functions re-implemented from the cited papers; tolerance 1e-9 relative.",
            "DESIGN.md section 5, C16"),
    "C17": ("exploration",
            "Hypothesis generated records and point sets vs direct recomputation (multiset pairing oracle, nested-loop indicators)",
            "Generated recorded-individual sets (unsorted / gapped tags, duplicates, min/max criteria) are queried "
            "through every Results method and compared with a direct computation over the recorded list (identity for "
            "population/optimum queries, multiset of (parameter, cost) pairs for listings, order for sorted output); "
            "gd and epsilon_add are compared with nested-loop references, including zero-iff-subset and shift-by-d "
            "(exact on dyadic inputs).",
            "Tags >= 0 (-1 means 'last'); costs()/find_optimum() only on non-empty records; finite values.",
            "DESIGN.md section 5, C17"),
    "C20": ("exploration",
            "Hypothesis generated pairs/pools + scripted call-site histories against the coordinate-wise oracle",
            "Generated search over vector pairs (subset-of-coordinates perturbations on both sides of the 1e-10 "
            "threshold, hash-colliding values), containers (in / set / list.remove) and the four call sites "
            "(Archive.remove, pop_acceptance, nondominated_truncate, GeneticAlgorithm.generate with scripted "
            "children) compared with the textbook definition of equality; no exhaustiveness claimed.",
            "Trusts CPython list/set semantics and the harness oracle all(|a_i-b_i|<1e-10); differences within a "
            "factor 5 of the threshold are not generated.",
            "DESIGN.md section 5, C20"),
}

NOT_YET = "check not built yet in this revision of /verif (planned in DESIGN.md section 5); nothing is claimed"


def main():
    props = [json.loads(l)["id"] for l in open(os.path.join(VERIF, "properties.jsonl"))]
    checks = []
    for pid in props:
        if pid not in CHECKS:
            continue
        cat, tech, text, note, ref = CHECKS[pid]
        checks.append({
            "property_id": pid,
            "quick_cmd": "/venv/bin/python pbt/run.py %s --tier quick" % pid,
            "thorough_cmd": "/venv/bin/python pbt/run.py %s --tier thorough" % pid,
            "evidence_file": "evidence/%s.json" % pid,
            "replay_cmd_template": "/venv/bin/python pbt/run.py %s --replay {path}" % pid,
            "engine": "pbt",
            "level_claimed": {"category": cat, "text": text, "design_ref": ref},
            "level_note": note,
            "technique": tech,
        })
    man = {
        "version": 1,
        "setup_cmd": "bash setup.sh",
        "hooks": {
            "guard": "ARTAP_VERIF",
            "enable": "no hooks are compiled into /repo: every observation point is wrapped inside the harness "
                      "process (monkey-patching from pbt/, ARTAP_ROOT selects the tree, default /repo)",
            "baseline_off_cmd": "cd /repo && /venv/bin/python -m pytest -ra -q -p no:cacheprovider --timeout=900 "
                                "--continue-on-collection-errors",
            "source_commits": [],
            "add_only": True,
        },
        "engines": [
            {"name": "pbt", "path": "pbt/run.py", "serves_properties": [c["property_id"] for c in checks],
             "kind_free_text": "Hypothesis 6.168 generated-input search (strategies -> JSON cases -> plain check "
                               "functions with independent oracles), bounded-exhaustive enumeration of small finite "
                               "generator domains, harness-owned schedules and crash points; 16-process sharding"},
        ],
        "checks": checks,
        "not_applicable": [{"property_id": p, "reason": NOT_YET} for p in props if p not in CHECKS],
        "notes": "Deciding technique for every claimed property: property-based testing / fuzzing (see DESIGN.md). "
                 "Fixes of genuine defects are unguarded 'fix:' commits in /repo, listed in known_findings.json.",
    }
    with open(os.path.join(VERIF, "MANIFEST.json"), "w") as f:
        json.dump(man, f, indent=1)
    try:
        import jsonschema
        jsonschema.validate(man, json.load(open("/root/.vp/MANIFEST.schema.json")))
        print("MANIFEST.json valid, %d checks, %d not_applicable" % (len(checks), len(man["not_applicable"])))
    except ImportError:
        print("MANIFEST.json written (jsonschema not importable here)")


if __name__ == "__main__":
    sys.exit(main())
