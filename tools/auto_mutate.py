#!/venv/bin/python
"""Automatic mutation sweep: single-point AST mutations inside the functions a property is anchored in.

For every property the `mechanism[].where` anchors of properties.jsonl name files and line ranges; every function of
the current /repo tree that overlaps such a range (the ranges are of the pinned snapshot, so +-8 lines of slack) is a
target.  Each mutant (one comparison / arithmetic / boolean operator swapped, one constant changed, one statement
dropped, one condition negated, ...) is written into a scratch copy of the `artap` package under /tmp and the property's
quick check is run against it (ARTAP_ROOT).  Survivors are listed for triage: they are either equivalent mutants or
gaps of the check.  Nothing is written to /repo.

usage: auto_mutate.py C04 [--max 80] [--jobs 4] [--seed 1] [--out report.json] [--list]
"""
import os
import re
import ast
import sys
import copy
import json
import random
import shutil
import argparse
import tempfile
import subprocess
from concurrent.futures import ThreadPoolExecutor

VERIF = os.path.dirname(os.path.dirname(os.path.abspath(__file__)))
REPO = "/repo"

CMP = {ast.Lt: ast.LtE, ast.LtE: ast.Lt, ast.Gt: ast.GtE, ast.GtE: ast.Gt, ast.Eq: ast.NotEq, ast.NotEq: ast.Eq,
       ast.Is: ast.IsNot, ast.IsNot: ast.Is, ast.In: ast.NotIn, ast.NotIn: ast.In}
BIN = {ast.Add: ast.Sub, ast.Sub: ast.Add, ast.Mult: ast.Div, ast.Div: ast.Mult, ast.FloorDiv: ast.Div,
       ast.Pow: ast.Mult, ast.Mod: ast.FloorDiv}


def targets(prop):
    """{file: [(lo, hi), ...]} from the property's anchors"""
    out = {}
    for line in open(os.path.join(VERIF, "properties.jsonl")):
        d = json.loads(line)
        if d["id"] != prop:
            continue
        items = list(d["anchors"].get("mechanism") or []) + list(d["anchors"].get("state") or [])
        for m in items:
            for part in str(m.get("where", "")).split(";"):
                part = part.strip()
                if ":" not in part:
                    continue
                f, ranges = part.split(":", 1)
                for r in ranges.split(","):
                    mm = re.match(r"\s*(\d+)(?:-(\d+))?", r)
                    if mm:
                        lo = int(mm.group(1))
                        hi = int(mm.group(2) or lo)
                        out.setdefault(f.strip(), []).append((lo, hi))
    return out


def target_functions(tree, ranges, slack=8):
    fns = []
    for node in ast.walk(tree):
        if isinstance(node, (ast.FunctionDef, ast.AsyncFunctionDef)):
            lo, hi = node.lineno, node.end_lineno
            if any(lo <= b + slack and a - slack <= hi for a, b in ranges):
                # only the innermost match matters; nested functions are reached through walk anyway
                fns.append(node)
    return fns


def sites(fn):
    """every mutation site of one function: (kind, node-path-key, description)"""
    out = []
    doc = ast.get_docstring(fn, clean=False)
    for node in ast.walk(fn):
        ln = getattr(node, "lineno", None)
        if isinstance(node, ast.Compare):
            for i, op in enumerate(node.ops):
                if type(op) in CMP:
                    out.append(("cmp", node, i, "line %s: %s -> %s" % (ln, type(op).__name__, CMP[type(op)].__name__)))
        elif isinstance(node, ast.BinOp) and type(node.op) in BIN:
            if isinstance(node.op, ast.Mod) and isinstance(node.left, ast.Constant) and isinstance(node.left.value, str):
                continue          # string formatting
            out.append(("bin", node, 0, "line %s: %s -> %s" % (ln, type(node.op).__name__, BIN[type(node.op)].__name__)))
        elif isinstance(node, ast.AugAssign) and type(node.op) in (ast.Add, ast.Sub):
            out.append(("aug", node, 0, "line %s: augmented %s flipped" % (ln, type(node.op).__name__)))
        elif isinstance(node, ast.BoolOp):
            out.append(("bool", node, 0, "line %s: %s flipped" % (ln, type(node.op).__name__)))
        elif isinstance(node, ast.UnaryOp) and isinstance(node.op, (ast.Not, ast.USub)):
            out.append(("unary", node, 0, "line %s: unary %s removed" % (ln, type(node.op).__name__)))
        elif isinstance(node, ast.Constant) and not isinstance(node.value, (str, bytes)) and node.value is not None \
                and node.value is not Ellipsis:
            if isinstance(node.value, bool):
                out.append(("const", node, 0, "line %s: %r -> %r" % (ln, node.value, not node.value)))
            elif isinstance(node.value, int):
                out.append(("const", node, 1, "line %s: %r -> %r" % (ln, node.value, node.value + 1)))
                if node.value != 0:
                    out.append(("const", node, -1, "line %s: %r -> %r" % (ln, node.value, node.value - 1)))
            elif isinstance(node.value, float):
                out.append(("const", node, 2, "line %s: %r -> %r" % (ln, node.value, node.value * 2 if node.value else 1.0)))
        elif isinstance(node, (ast.If, ast.While)):
            out.append(("negate", node, 0, "line %s: condition negated" % ln))
        elif isinstance(node, ast.IfExp):
            out.append(("negate", node, 0, "line %s: conditional expression negated" % ln))
        elif isinstance(node, (ast.Break, ast.Continue)):
            out.append(("drop", node, 0, "line %s: %s dropped" % (ln, type(node).__name__.lower())))
        elif isinstance(node, ast.Expr) and isinstance(node.value, ast.Call):
            out.append(("drop", node, 0, "line %s: call statement dropped: %s" % (ln, ast.unparse(node)[:60])))
        elif isinstance(node, (ast.Assign, ast.AugAssign)) and not (
                isinstance(node, ast.Assign) and isinstance(node.value, ast.Constant) and isinstance(node.value.value, str)):
            out.append(("drop", node, 0, "line %s: assignment dropped: %s" % (ln, ast.unparse(node)[:60])))
        elif isinstance(node, ast.Return) and node.value is not None and isinstance(node.value, ast.Constant) \
                and isinstance(node.value.value, bool):
            pass        # covered by const
    return out


class Apply(ast.NodeTransformer):
    def __init__(self, kind, target, arg):
        self.kind, self.target, self.arg = kind, target, arg
        self.done = False

    def generic_visit(self, node):
        if node is self.target and not self.done:
            self.done = True
            k, a = self.kind, self.arg
            if k == "cmp":
                node.ops[a] = CMP[type(node.ops[a])]()
            elif k == "bin":
                node.op = BIN[type(node.op)]()
            elif k == "aug":
                node.op = ast.Sub() if isinstance(node.op, ast.Add) else ast.Add()
            elif k == "bool":
                node.op = ast.Or() if isinstance(node.op, ast.And) else ast.And()
            elif k == "unary":
                return ast.copy_location(node.operand, node)
            elif k == "const":
                v = node.value
                node.value = (not v) if isinstance(v, bool) else (v + a if isinstance(v, int) else (v * 2 if v else 1.0))
            elif k == "negate":
                node.test = ast.UnaryOp(op=ast.Not(), operand=node.test)
            elif k == "drop":
                return ast.copy_location(ast.Pass(), node)
            return node
        return super().generic_visit(node)


def make_mutants(prop):
    muts = []
    for f, ranges in sorted(targets(prop).items()):
        path = os.path.join(REPO, f)
        if not os.path.exists(path):
            continue
        src = open(path).read()
        tree = ast.parse(src)
        seen = set()
        for fn in target_functions(tree, ranges):
            for kind, node, arg, desc in sites(fn):
                key = (id(node), kind, arg)
                if key in seen:
                    continue
                seen.add(key)
                muts.append({"file": f, "fn": fn.name, "kind": kind, "desc": desc, "_node": node, "_arg": arg, "_tree": tree})
    return muts


def render(mut):
    tree = mut["_tree"]
    # deep-copy the module and find the corresponding node by position in walk order
    order = list(ast.walk(tree))
    idx = next(i for i, n in enumerate(order) if n is mut["_node"])
    t2 = copy.deepcopy(tree)
    node2 = list(ast.walk(t2))[idx]
    t2 = Apply(mut["kind"], node2, mut["_arg"]).visit(t2)
    ast.fix_missing_locations(t2)
    return ast.unparse(t2)


def run_one(prop, mut, tier, clauses, scale=None):
    d = tempfile.mkdtemp(prefix="artap-am-", dir="/tmp")
    try:
        shutil.copytree(os.path.join(REPO, "artap"), os.path.join(d, "artap"),
                        ignore=shutil.ignore_patterns("__pycache__", "tests", "*.pyc"))
        try:
            code = render(mut)
            compile(code, mut["file"], "exec")
        except Exception as e:  # noqa
            return "invalid", repr(e)[:100]
        open(os.path.join(d, mut["file"]), "w").write(code)
        env = dict(os.environ, ARTAP_ROOT=d, VERIF_SEED=os.environ.get("VERIF_SEED", "1"), PBT_NO_EVIDENCE="1",
                   PBT_FOUND=os.path.join(d, "found"))
        cmd = ["/venv/bin/python", os.path.join(VERIF, "pbt", "run.py"), prop, "--tier", tier]
        for c in clauses:
            cmd += ["--clause", c]
        if scale:
            cmd += ["--scale", str(scale)]
        try:
            p = subprocess.run(cmd, cwd=VERIF, env=env, capture_output=True, text=True, timeout=1500)
        except subprocess.TimeoutExpired:
            return "timeout", ""
        if p.returncode == 1:
            det = [l.strip() for l in p.stdout.splitlines() if l.startswith("  ") and "[" in l][:1]
            return "killed", (det[0][:160] if det else "")
        if p.returncode == 0:
            if scale:
                # two-stage: survivors of the reduced run are re-run at full size
                return run_one(prop, mut, tier, clauses, None)
            return "SURVIVED", ""
        hl = [l for l in p.stdout.splitlines() if l.startswith("HARNESS")][:1]
        return "harness-exit-%d" % p.returncode, (hl[0][:200] if hl else p.stdout[-200:])
    finally:
        shutil.rmtree(d, ignore_errors=True)


def main():
    ap = argparse.ArgumentParser()
    ap.add_argument("prop")
    ap.add_argument("--max", type=int, default=80)
    ap.add_argument("--jobs", type=int, default=4)
    ap.add_argument("--seed", type=int, default=1)
    ap.add_argument("--tier", default="quick")
    ap.add_argument("--clause", action="append", default=[])
    ap.add_argument("--fn", action="append", default=[], help="restrict to these function names")
    ap.add_argument("--out")
    ap.add_argument("--list", action="store_true")
    ap.add_argument("--scale", type=float, default=0.2, help="first pass with reduced example counts (0 = off)")
    a = ap.parse_args()
    muts = make_mutants(a.prop)
    if a.fn:
        muts = [m for m in muts if m["fn"] in a.fn]
    rng = random.Random(a.seed)
    if len(muts) > a.max:
        muts = rng.sample(muts, a.max)
    muts.sort(key=lambda m: (m["file"], m["desc"]))
    if a.list:
        for m in muts:
            print(m["file"], m["fn"], m["desc"])
        print(len(muts), "mutants")
        return 0
    res = []
    with ThreadPoolExecutor(a.jobs) as ex:
        for m, (status, info) in zip(muts, ex.map(lambda m: run_one(a.prop, m, a.tier, a.clause, a.scale or None), muts)):
            rec = {"file": m["file"], "fn": m["fn"], "kind": m["kind"], "desc": m["desc"], "status": status, "info": info}
            res.append(rec)
            print("%s %-9s %s:%s %s %s" % (a.prop, status, m["file"].split("/")[-1], m["fn"], m["desc"], info[:110]), flush=True)
    tally = {}
    for r in res:
        tally[r["status"]] = tally.get(r["status"], 0) + 1
    print("SUMMARY", a.prop, json.dumps(tally, sort_keys=True))
    if a.out:
        json.dump({"property": a.prop, "tally": tally, "mutants": res}, open(a.out, "w"), indent=1)
    return 0


if __name__ == "__main__":
    sys.exit(main())
