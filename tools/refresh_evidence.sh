#!/bin/bash
# Runs every quick check at VERIF_SEED=1 (rewriting evidence/Cxx.json) and validates MANIFEST + evidence against the schemas.
cd "$(dirname "$0")/.."
rc=0
for p in C01 C02 C03 C04 C05 C06 C07 C08 C09 C10 C11 C12 C13 C14 C15 C16 C17 C18 C19 C20; do
  out=$(VERIF_SEED=1 /venv/bin/python pbt/run.py $p --tier quick 2>&1); e=$?
  echo "$p exit=$e $(echo "$out" | grep -E '^C[0-9]+ tier' )"
  echo "$out" | grep -E "VIOLATION|HARNESS|KNOWN-FINDING" 
  [ $e -ne 0 ] && rc=1
done
python3-vt - <<'PY'
import json, jsonschema, glob
jsonschema.validate(json.load(open('MANIFEST.json')), json.load(open('/root/.vp/MANIFEST.schema.json')))
sch=json.load(open('/root/.vp/EVIDENCE.schema.json'))
for f in sorted(glob.glob('evidence/*.json')):
    jsonschema.validate(json.load(open(f)), sch)
print("manifest and", len(glob.glob('evidence/*.json')), "evidence files valid")
PY
exit $rc
