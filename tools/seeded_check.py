#!/venv/bin/python
"""Confirm a seeded breaking change and run the property's check against it.

usage: seeded_check.py <src dir with patch.diff demo.py meta.json> <seed id, e.g. C04-A> [--tier quick] [--no-suite]

Steps (all in a scratch worktree of /repo under /tmp, removed afterwards; /repo itself is never touched):
  1. demo on the clean tree must exit 0;  2. `git apply patch.diff`, demo must exit 1;
  3. the pinned test suite with the change applied must keep all 186 baseline-stable tests green;
  4. the property's check (ARTAP_ROOT = scratch tree) must report a VIOLATION.
Confirmed changes are stored as /verif/seeded/<id>/ (patch.diff, demo.py, meta.json with the results).
"""
import os
import sys
import json
import shutil
import argparse
import subprocess
import xml.etree.ElementTree as ET

VERIF = os.path.dirname(os.path.dirname(os.path.abspath(__file__)))
PY = "/venv/bin/python"


def sh(cmd, **kw):
    return subprocess.run(cmd, shell=isinstance(cmd, str), capture_output=True, text=True, **kw)


def main():
    ap = argparse.ArgumentParser()
    ap.add_argument("src")
    ap.add_argument("sid")
    ap.add_argument("--tier", default="quick")
    ap.add_argument("--no-suite", action="store_true")
    ap.add_argument("--prop")
    ap.add_argument("--harvest", action="store_true",
                    help="store up to two shrunk witnesses as replays/<prop>/seeded-<id>-*.json (they must fail on the "
                         "patched tree and pass on /repo)")
    a = ap.parse_args()
    a.src = os.path.abspath(a.src)
    prop = a.prop or a.sid.split("-")[0]
    scratch = "/tmp/seedchk-%s" % a.sid
    sh("git -C /repo worktree remove --force %s" % scratch)
    r = sh("git -C /repo worktree add -q --detach %s HEAD" % scratch)
    if r.returncode:
        print("cannot create worktree:", r.stderr)
        return 2
    res = {"seed_id": a.sid, "property": prop}
    try:
        patch = os.path.join(a.src, "patch.diff")
        demo = os.path.join(a.src, "demo.py")
        env = dict(os.environ, PYTHONPATH=scratch, PYTHONHASHSEED="0")
        r0 = sh([PY, demo, scratch], env=env, timeout=900)
        res["demo_clean_exit"] = r0.returncode
        ra = sh("git -C %s apply %s" % (scratch, patch))
        if ra.returncode:
            print("patch does not apply:", ra.stderr)
            res["patch_applies"] = False
            print(json.dumps(res))
            return 2
        res["patch_applies"] = True
        res["files_changed"] = sh("git -C %s diff --name-only" % scratch).stdout.split()
        r1 = sh([PY, demo, scratch], env=env, timeout=900)
        res["demo_changed_exit"] = r1.returncode
        res["demo_output"] = (r1.stdout + r1.stderr)[-600:]
        if not a.no_suite:
            xml = "/tmp/seedchk-%s.xml" % a.sid
            sh("cd %s && PYTHONPATH=%s %s -m pytest -q -p no:cacheprovider --timeout=900 "
               "--continue-on-collection-errors --junitxml=%s" % (scratch, scratch, PY, xml), timeout=3600)
            base = json.load(open("/root/.vp/BASELINE.json"))
            ok = {}
            for tc in ET.parse(xml).iter("testcase"):
                ok[tc.get("classname") + "::" + tc.get("name")] = not any(c.tag in ("failure", "error") for c in tc)
            lost = [n for n in base["stable_pass"] if not ok.get(n)]
            res["suite_stable_lost"] = lost
            os.remove(xml)
        found = "/tmp/seedfound-%s" % a.sid
        shutil.rmtree(found, ignore_errors=True)
        env2 = dict(os.environ, ARTAP_ROOT=scratch, PBT_NO_EVIDENCE="1", VERIF_SEED=os.environ.get("VERIF_SEED", "1"),
                    PBT_FOUND=found)
        rc = sh([PY, os.path.join(VERIF, "pbt", "run.py"), prop, "--tier", a.tier], env=env2, cwd=VERIF, timeout=7200)
        res["check_tier"] = a.tier
        res["check_exit"] = rc.returncode
        res["check_violations"] = [l.strip()[:400] for l in rc.stdout.splitlines()
                                   if l.startswith("  ") and "[" in l and "n=" not in l[:40]][:6]
        res["check_harness"] = [l[:300] for l in rc.stdout.splitlines() if l.startswith("HARNESS")][:3]
        if a.harvest:
            import glob
            kept = 0
            for f in sorted(glob.glob(os.path.join(found, prop, "*.json")), key=os.path.getsize):
                if kept >= 2:
                    break
                if os.path.getsize(f) > 20000:
                    continue
                rp = sh([PY, os.path.join(VERIF, "pbt", "run.py"), prop, "--replay", f], env=env2, cwd=VERIF, timeout=900)
                rcn = sh([PY, os.path.join(VERIF, "pbt", "run.py"), prop, "--replay", f],
                         env=dict(os.environ, ARTAP_ROOT="/repo"), cwd=VERIF, timeout=900)
                if rp.returncode == 1 and rcn.returncode == 0:
                    dst = os.path.join(VERIF, "replays", prop)
                    os.makedirs(dst, exist_ok=True)
                    rec = json.load(open(f))
                    rec["note"] = "witness of seeded change %s (fails there, passes on the repository tree)" % a.sid
                    json.dump(rec, open(os.path.join(dst, "seeded-%s-%d.json" % (a.sid, kept)), "w"), indent=1)
                    kept += 1
            res["replays_harvested"] = kept
        shutil.rmtree(found, ignore_errors=True)
    finally:
        sh("git -C /repo worktree remove --force %s" % scratch)
        shutil.rmtree(scratch, ignore_errors=True)
        sh("git -C /repo worktree prune")
    confirmed = res.get("demo_clean_exit") == 0 and res.get("demo_changed_exit") not in (0, None) and \
        not res.get("suite_stable_lost")
    res["confirmed"] = bool(confirmed)
    res["caught"] = res.get("check_exit") == 1
    print(json.dumps(res, indent=1))
    if confirmed and not a.src.startswith(os.path.join(VERIF, "seeded")):
        dst = os.path.join(VERIF, "seeded", a.sid)
        os.makedirs(dst, exist_ok=True)
        shutil.copy(patch, os.path.join(dst, "patch.diff"))
        shutil.copy(demo, os.path.join(dst, "demo.py"))
        meta = {}
        mp = os.path.join(a.src, "meta.json")
        if os.path.exists(mp):
            try:
                meta = json.load(open(mp))
            except ValueError:
                meta = {"raw": open(mp).read()}
        meta["confirmation"] = res
        meta["what_i_ran"] = ("scratch worktree of /repo HEAD under /tmp: demo on clean tree (exit 0), git apply patch, demo "
                              "(exit 1), pinned pytest suite with the change (all 186 baseline-stable tests must pass), then "
                              "`ARTAP_ROOT=<scratch> pbt/run.py %s --tier %s`; scratch removed afterwards" % (prop, a.tier))
        json.dump(meta, open(os.path.join(dst, "meta.json"), "w"), indent=1)
    return 0 if confirmed else 1


if __name__ == "__main__":
    sys.exit(main())
