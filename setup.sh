#!/bin/bash
# Offline setup: the checks need hypothesis (and numpy/scipy, which the repository's own venv already has) in /venv.
set -e
cd "$(dirname "$0")"
if ! /venv/bin/python -c "import hypothesis" 2>/dev/null; then
  /venv/bin/pip install --no-index --find-links /opt/veriftools/wheels hypothesis
fi
# atheris (second engine, thorough tier only) goes to a private directory; absence only disables the fuzz tier
if ! PYTHONPATH=.deps /venv/bin/python -c "import atheris" 2>/dev/null; then
  /venv/bin/pip install --no-index --find-links /opt/veriftools/wheels --target .deps atheris >/dev/null 2>&1 || true
fi
mkdir -p evidence
/venv/bin/python -c "import hypothesis, numpy, scipy; print('setup ok: hypothesis', hypothesis.__version__)"
